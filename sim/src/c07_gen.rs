//! C07 workload: generated classes (`refclass::gen_class`) post-processed so that they REFER to each other
//! and to classes outside the jar, corpus classes, and a mapping set built over all of them.
//!
//! Nothing here is an oracle. The linker reuses the traversal of `refremap` only to reach every position; what
//! it writes there is workload.

use super::c07_corpus::CORPUS;
use crate::refmap::{mkey, ClassM, MapSet, MemberM};
use crate::refremap::{walk, Pos, RefVisitor};
use crate::rng::Rng;
use refclass::gen::feat;
use refclass::sem::*;
use refclass::{GenCfg, JStr};
use std::collections::{BTreeMap, BTreeSet};

#[derive(Clone, Debug)]
pub struct WCfg {
    pub n_gen: usize,
    pub n_corpus: usize,
    pub features: u32,
    pub max_members: usize,
    pub max_insns: usize,
    /// percentage of positions that are re-pointed to a class / member of the universe
    pub link_pct: u32,
    pub map_class_pct: u32,
    pub map_member_pct: u32,
    pub random_layout: bool,
    pub unicode: bool,
}

pub struct UClass {
    pub name: JStr,
    pub in_jar: bool,
    pub is_interface: bool,
    /// indices into the universe (only super types that are themselves in the universe)
    pub supers: Vec<usize>,
    pub fields: Vec<(JStr, JStr)>,
    pub methods: Vec<(JStr, JStr)>,
    pub enum_consts: Vec<JStr>,
}

pub struct Workload {
    /// (entry name, class bytes), jar order
    pub classes: Vec<(String, Vec<u8>)>,
    pub map: MapSet,
}

fn js(s: &str) -> JStr {
    JStr::from_str(s)
}
fn st(j: &JStr) -> String {
    j.to_str().unwrap_or_else(|| j.to_string_lossy())
}
fn obj_desc(c: &JStr) -> JStr {
    let mut b = vec![b'L'];
    b.extend_from_slice(c.as_bytes());
    b.push(b';');
    JStr(b)
}

fn simple_name(r: &mut Rng, unicode: bool) -> String {
    const A: &[u8] = b"ABCDEFGHIJKLMNOPQRSTUVWXYZ";
    const B: &[u8] = b"abcdefghijklmnopqrstuvwxyz0123456789_";
    let mut s = String::new();
    s.push(*r.pick(A) as char);
    let n = if r.chance(15) { 0 } else { r.range(1, 5) };
    for _ in 0..n {
        if unicode && r.chance(12) {
            s.push(*r.pick(&['é', 'Ω', '名', '\u{10400}', 'ß', '\u{7f}']));
        } else {
            s.push(*r.pick(B) as char);
        }
    }
    s
}

fn member_name(r: &mut Rng, prefix: &str, counter: &mut u32, unicode: bool) -> String {
    *counter += 1;
    let mut s = format!("{prefix}{counter}");
    if unicode && r.chance(10) {
        s.push(*r.pick(&['é', 'Ω', '名', '\u{10400}']));
    }
    s
}

struct Linker<'a> {
    r: &'a mut Rng,
    u: &'a [UClass],
    /// universe indices of in-jar classes that have `d` among their transitive super types, per `d`
    desc_of: &'a [Vec<usize>],
    pct: u32,
    decl_phase: bool,
    this_idx: usize,
}

impl Linker<'_> {
    fn pick_class(&mut self) -> JStr {
        // in-jar classes are preferred: they are what the mapping is mostly about
        let i = self.r.usize(self.u.len());
        self.u[i].name.clone()
    }
    fn relink_class(&mut self, c: &mut JStr, force: bool) {
        if !force && !self.r.chance(self.pct) {
            return;
        }
        if c.as_bytes().first() == Some(&b'[') {
            // keep the shape; replace the element class, if any
            let b = c.as_bytes();
            let dims = b.iter().take_while(|x| **x == b'[').count();
            if b.get(dims) == Some(&b'L') {
                let mut out = b[..dims].to_vec();
                out.extend_from_slice(obj_desc(&self.pick_class()).as_bytes());
                *c = JStr(out);
            }
        } else {
            *c = self.pick_class();
        }
    }
    fn relink_desc(&mut self, d: &mut JStr) {
        let b = d.as_bytes().to_vec();
        let mut out = Vec::with_capacity(b.len());
        let mut i = 0;
        while i < b.len() {
            if b[i] == b'L' {
                if let Some(len) = b[i + 1..].iter().position(|x| *x == b';') {
                    if self.r.chance(self.pct) {
                        out.extend_from_slice(obj_desc(&self.pick_class()).as_bytes());
                    } else {
                        out.extend_from_slice(&b[i..i + len + 2]);
                    }
                    i += len + 2;
                    continue;
                }
            }
            out.push(b[i]);
            i += 1;
        }
        *d = JStr(out);
    }
    /// (owner, declaring class) for a member scenario: owner is the declaring class or one of its in-jar descendants
    fn scenario(&mut self, field: bool) -> Option<(JStr, JStr, JStr)> {
        let cands: Vec<usize> = (0..self.u.len()).filter(|i| if field { !self.u[*i].fields.is_empty() } else { self.u[*i].methods.iter().any(|m| !m.0.as_bytes().starts_with(b"<")) }).collect();
        if cands.is_empty() {
            return None;
        }
        let d = *self.r.pick(&cands);
        let (n, de) = if field {
            self.r.pick(&self.u[d].fields).clone()
        } else {
            let ms: Vec<&(JStr, JStr)> = self.u[d].methods.iter().filter(|m| !m.0.as_bytes().starts_with(b"<")).collect();
            (*self.r.pick(&ms)).clone()
        };
        let owner = if !self.desc_of[d].is_empty() && self.r.chance(60) { self.u[*self.r.pick(&self.desc_of[d])].name.clone() } else { self.u[d].name.clone() };
        Some((owner, n, de))
    }
    fn sig_for(&mut self, pos: Pos, old: &JStr) -> JStr {
        let c = st(&self.pick_class());
        let c2 = st(&self.pick_class());
        let b = old.as_bytes();
        let s = if pos == Pos::LocalVarSig {
            match self.r.below(3) {
                0 => format!("Ljava/util/List<L{c};>;"),
                1 => format!("L{c}<TT;>;"),
                _ => format!("[L{c};"),
            }
        } else if b.first() == Some(&b'(') || (b.first() == Some(&b'<') && b.contains(&b'(')) {
            match self.r.below(3) {
                0 => format!("<T:L{c};:Ljava/lang/Comparable<-TT;>;>(TT;[L{c2};)TT;^L{c};"),
                1 => format!("(L{c}<L{c2};>;)V"),
                _ => format!("()Ljava/util/Map<L{c};[L{c2};>.Entry<**>;"),
            }
        } else if b.first() == Some(&b'<') {
            // class signature
            format!("<T:Ljava/lang/Object;U::L{c};>Ljava/lang/Object;Ljava/lang/Comparable<L{c2};>;")
        } else {
            match self.r.below(4) {
                0 => format!("Ljava/util/List<L{c};>;"),
                1 => format!("L{c}<+L{c2};*>;"),
                2 => format!("L{c}<TK;>.Inner<L{c2};>;"),
                _ => "TT;".to_string(),
            }
        };
        js(&s)
    }
}

impl RefVisitor for Linker<'_> {
    fn class(&mut self, pos: Pos, c: &mut JStr) {
        if self.decl_phase {
            return;
        }
        match pos {
            Pos::ThisClass | Pos::Super | Pos::Interface | Pos::ModuleClass => {}
            _ => self.relink_class(c, false),
        }
    }
    fn desc(&mut self, _pos: Pos, d: &mut JStr) {
        if self.decl_phase {
            return;
        }
        self.relink_desc(d);
    }
    fn field_decl(&mut self, _this: &JStr, _name: &mut JStr, _desc: &mut JStr) {}
    fn method_decl(&mut self, _this: &JStr, _name: &mut JStr, _desc: &mut JStr) {}
    fn field_ref(&mut self, _pos: Pos, m: &mut MemberRef) {
        if self.decl_phase {
            return;
        }
        let array_owner = m.owner.as_bytes().first() == Some(&b'[');
        if self.r.chance(self.pct.max(50)) {
            if let Some((o, n, d)) = self.scenario(true) {
                m.owner = o;
                m.name = n;
                m.desc = d;
                return;
            }
        }
        // a Fieldref never has an array class as owner (JVMS 5.4.3.2)
        if array_owner {
            m.owner = self.pick_class();
        } else {
            self.relink_class(&mut m.owner, false);
        }
        self.relink_desc(&mut m.desc);
    }
    fn method_ref(&mut self, _pos: Pos, m: &mut MemberRef) {
        if self.decl_phase {
            return;
        }
        let special = m.name.as_bytes().starts_with(b"<");
        let array_owner = m.owner.as_bytes().first() == Some(&b'[');
        if !special && !array_owner && self.r.chance(self.pct.max(50)) {
            if let Some((o, n, d)) = self.scenario(false) {
                m.owner = o;
                m.name = n;
                m.desc = d;
                return;
            }
        }
        self.relink_class(&mut m.owner, false);
        self.relink_desc(&mut m.desc);
    }
    fn enclosing_method(&mut self, class: &mut JStr, method: &mut Option<(JStr, JStr)>) {
        if self.decl_phase {
            return;
        }
        let i = self.r.usize(self.u.len());
        *class = self.u[i].name.clone();
        if let Some((n, d)) = method {
            let ms: Vec<&(JStr, JStr)> = self.u[i].methods.iter().collect();
            if !ms.is_empty() && self.r.chance(70) {
                let (a, b) = (*self.r.pick(&ms)).clone();
                *n = a;
                *d = b;
            } else {
                self.relink_desc(d);
            }
        }
    }
    fn enum_const(&mut self, type_desc: &mut JStr, const_name: &mut JStr) {
        if self.decl_phase {
            return;
        }
        let cands: Vec<usize> = (0..self.u.len()).filter(|i| !self.u[*i].enum_consts.is_empty()).collect();
        if !cands.is_empty() && self.r.chance(70) {
            let i = *self.r.pick(&cands);
            *type_desc = obj_desc(&self.u[i].name);
            *const_name = self.r.pick(&self.u[i].enum_consts).clone();
        } else {
            self.relink_desc(type_desc);
        }
    }
    fn record_component(&mut self, _this: &JStr, _name: &mut JStr, _desc: &mut JStr) {}
    fn signature(&mut self, pos: Pos, s: &mut JStr) {
        if self.decl_phase {
            return;
        }
        if self.r.chance(self.pct) {
            *s = self.sig_for(pos, s);
        }
        let _ = self.this_idx;
    }
}

fn transitive_supers(u: &[UClass], i: usize) -> BTreeSet<usize> {
    let mut seen = BTreeSet::new();
    let mut stack = u[i].supers.clone();
    while let Some(x) = stack.pop() {
        if seen.insert(x) {
            stack.extend(u[x].supers.iter().copied());
        }
    }
    seen
}

fn dedupe_members(s: &mut Sem) {
    let mut seen = BTreeSet::new();
    let mut k = 0;
    for f in &mut s.fields {
        while !seen.insert((f.name.clone(), f.desc.clone())) {
            k += 1;
            f.name.0.extend_from_slice(format!("_{k}").as_bytes());
        }
    }
    let mut seen = BTreeSet::new();
    for m in &mut s.methods {
        while !seen.insert((m.name.clone(), m.desc.clone())) {
            k += 1;
            if m.name.as_bytes().starts_with(b"<") {
                // a second <init>/<clinit> with the same descriptor: give it another descriptor
                let close = m.desc.0.iter().position(|b| *b == b')').unwrap_or(0);
                m.desc.0.insert(close, b'I');
            } else {
                m.name.0.extend_from_slice(format!("_{k}").as_bytes());
            }
        }
    }
}

/// Picks corpus classes: one variant, one family (Outer + its `$` members) and a few more.
fn pick_corpus(r: &mut Rng, n: usize) -> Vec<(String, Vec<u8>)> {
    if n == 0 {
        return vec![];
    }
    let variant = *r.pick(&["j17", "j17g", "j17g", "j11", "j8g", "mod"]);
    let files: Vec<&(&str, &str, &[u8])> = CORPUS.iter().filter(|c| c.0 == variant).collect();
    let seed = r.usize(files.len());
    let family = files[seed].1.trim_end_matches(".class").split('$').next().unwrap().to_string();
    let mut out: Vec<(String, Vec<u8>)> = vec![];
    let mut fam: Vec<&&(&str, &str, &[u8])> = files.iter().filter(|c| c.1.trim_end_matches(".class").split('$').next().unwrap() == family).collect();
    r.shuffle(&mut fam);
    for c in fam.into_iter().take(n) {
        out.push((c.1.to_string(), c.2.to_vec()));
    }
    while out.len() < n {
        let c = files[r.usize(files.len())];
        if out.iter().any(|o| o.0 == c.1) {
            break;
        }
        out.push((c.1.to_string(), c.2.to_vec()));
    }
    out.sort();
    out
}

pub fn build(r: &mut Rng, cfg: &WCfg) -> Workload {
    let mut u: Vec<UClass> = vec![];
    // ---- classes outside the jar
    let ext = |name: &str, itf: bool, fields: &[(&str, &str)], methods: &[(&str, &str)]| UClass {
        name: js(name),
        in_jar: false,
        is_interface: itf,
        supers: vec![],
        fields: fields.iter().map(|(a, b)| (js(a), js(b))).collect(),
        methods: methods.iter().map(|(a, b)| (js(a), js(b))).collect(),
        enum_consts: vec![],
    };
    u.push(ext("java/lang/Object", false, &[], &[("hashCode", "()I"), ("equals", "(Ljava/lang/Object;)Z")]));
    u.push(ext("lib/Base", false, &[("count", "I"), ("owner", "Llib/Base;"), ("parts", "[Lext/Thing$Part;")], &[("run", "()V"), ("get", "(I)Llib/Base;"), ("<init>", "()V")]));
    u.push(ext("lib/api/Iface", true, &[("DEFAULT", "Llib/api/Iface;")], &[("call", "(Ljava/lang/String;)V"), ("wrap", "(Llib/Base;[J)Llib/api/Iface;")]));
    u.push(ext("ext/Thing$Part", false, &[("p", "J")], &[("part", "()Lext/Thing$Part;")]));
    u.push(ext("ext/Kind", false, &[("ONE", "Lext/Kind;"), ("TWO", "Lext/Kind;")], &[("values", "()[Lext/Kind;")]));
    u.last_mut().unwrap().enum_consts = vec![js("ONE"), js("TWO")];
    let n_ext = u.len();

    // ---- corpus classes (members and hierarchy as javac wrote them)
    let corpus = pick_corpus(r, cfg.n_corpus);
    let mut corpus_sems: Vec<Sem> = vec![];
    for (_, bytes) in &corpus {
        let s = refclass::parse(bytes).expect("corpus class parses");
        u.push(UClass {
            name: s.this_class.clone(),
            in_jar: true,
            is_interface: s.access & 0x0200 != 0,
            supers: vec![],
            fields: s.fields.iter().map(|f| (f.name.clone(), f.desc.clone())).collect(),
            methods: s.methods.iter().map(|m| (m.name.clone(), m.desc.clone())).collect(),
            enum_consts: s.fields.iter().filter(|f| f.access & 0x4000 != 0).map(|f| f.name.clone()).collect(),
        });
        corpus_sems.push(s);
    }
    for (k, s) in corpus_sems.iter().enumerate() {
        let mut sup = vec![];
        for c in s.super_class.iter().chain(s.interfaces.iter()) {
            if let Some(j) = u.iter().position(|x| x.name == *c) {
                if j != n_ext + k {
                    sup.push(j);
                }
            }
        }
        u[n_ext + k].supers = sup;
    }
    let n_fixed = u.len();

    // ---- generated classes: names, hierarchy
    let mut used: BTreeSet<String> = u.iter().map(|c| st(&c.name)).collect();
    let packages = ["", "a", "a/b", "com/acme", "x/y/z", "lib"];
    let mut sems: Vec<Sem> = vec![];
    let mut have_module = corpus.iter().any(|c| c.0 == "module-info.class");
    for gi in 0..cfg.n_gen {
        let mut features = cfg.features;
        if have_module {
            features &= !feat::MODULE;
        }
        let gcfg = GenCfg { max_members: cfg.max_members, max_insns: cfg.max_insns, features, major_min: 45, major_max: 67 };
        let mut s = refclass::gen_class(r, &gcfg);
        // admissible workload: duke's reader refuses preview class files (minor 65535) - C01's business
        if s.minor == 65535 {
            s.minor = 0;
        }
        if s.module.is_some() {
            have_module = true;
            used.insert("module-info".into());
            u.push(UClass { name: s.this_class.clone(), in_jar: true, is_interface: false, supers: vec![], fields: vec![], methods: vec![], enum_consts: vec![] });
            sems.push(s);
            continue;
        }
        // SourceDebugExtension is a modified UTF-8 string (JVMS 4.7.11); the generator draws arbitrary bytes
        if s.source_debug_extension.is_some() {
            let t = format!("SMAP\n{}.java\nJSP\n*S JSP\n*F\n+ 0 x.jsp\n{}\n*E\n", simple_name(r, cfg.unicode), simple_name(r, true));
            s.source_debug_extension = Some(js(&t).0);
        }
        // duke's reader refuses an exception range that ends at code_length (legal by JVMS 4.7.3; C01's business):
        // kept in one class out of ten only, so that whole jars are not lost to it
        if !r.chance(10) {
            for m in &mut s.methods {
                if let Some(c) = &mut m.code {
                    let n = c.insns.len();
                    if n >= 2 {
                        for e in &mut c.exceptions {
                            if e.end >= n {
                                e.end = n - 1;
                                if e.start >= e.end {
                                    e.start = e.end - 1;
                                }
                            }
                        }
                    } else if !c.exceptions.is_empty() {
                        c.exceptions.clear();
                        c.type_annotations.visible.retain(|t| !matches!(t.target, Target::Catch(_)));
                        c.type_annotations.invisible.retain(|t| !matches!(t.target, Target::Catch(_)));
                    }
                }
            }
        }
        // name
        let gen_so_far: Vec<usize> = (n_fixed..u.len()).filter(|i| u[*i].name.as_bytes() != b"module-info").collect();
        let name = loop {
            let cand = if !gen_so_far.is_empty() && r.chance(35) {
                let outer = st(&u[*r.pick(&gen_so_far)].name);
                if r.chance(25) {
                    format!("{outer}${}", r.range(1, 3))
                } else {
                    format!("{outer}${}", simple_name(r, cfg.unicode))
                }
            } else {
                let p = *r.pick(&packages);
                let n = simple_name(r, cfg.unicode);
                if p.is_empty() {
                    n
                } else {
                    format!("{p}/{n}")
                }
            };
            if used.insert(cand.clone()) {
                break cand;
            }
        };
        s.this_class = js(&name);
        let is_itf = s.access & 0x0200 != 0;
        // hierarchy: only classes already in the universe (acyclic by construction)
        let n_now = u.len();
        let mut sup_idx = vec![];
        if !is_itf && s.record.is_none() {
            let pick = if r.chance(70) { r.usize(n_now) } else { 0 };
            if u[pick].name.as_bytes() != b"module-info" {
                s.super_class = Some(u[pick].name.clone());
                sup_idx.push(pick);
            }
        }
        let ni = s.interfaces.len().min(3);
        s.interfaces.truncate(ni);
        for k in 0..ni {
            if r.chance(70) {
                let pick = r.usize(n_now);
                let nm = u[pick].name.clone();
                if nm.as_bytes() != b"module-info" && !s.interfaces[..k].contains(&nm) && Some(&nm) != s.super_class.as_ref() {
                    s.interfaces[k] = nm;
                    sup_idx.push(pick);
                }
            }
        }
        if s.interfaces.is_empty() && r.chance(40) {
            let pick = r.usize(n_now);
            let nm = u[pick].name.clone();
            if nm.as_bytes() != b"module-info" && Some(&nm) != s.super_class.as_ref() {
                s.interfaces.push(nm);
                sup_idx.push(pick);
            }
        }
        // the hierarchy stays acyclic: no class is its own super type, and the arbitrary super type names the
        // generator left in place can never become the name of a later class of the jar
        let own = s.this_class.clone();
        s.interfaces.retain(|i| *i != own);
        if s.super_class.as_ref() == Some(&own) {
            s.super_class = Some(js("java/lang/Object"));
        }
        for c in s.super_class.iter().chain(s.interfaces.iter()) {
            used.insert(st(c));
        }
        u.push(UClass { name: s.this_class.clone(), in_jar: true, is_interface: is_itf, supers: sup_idx, fields: vec![], methods: vec![], enum_consts: vec![] });
        sems.push(s);
        let _ = gi;
    }

    // ---- declarations of the generated classes
    let mut counter = 0u32;
    for (k, s) in sems.iter_mut().enumerate() {
        let ui = n_fixed + k;
        if s.module.is_some() {
            continue;
        }
        let is_itf = u[ui].is_interface;
        let anc: Vec<usize> = transitive_supers(&u, ui).into_iter().collect();
        {
            let desc_of: Vec<Vec<usize>> = vec![vec![]; u.len()];
            let mut l = Linker { r, u: &u, desc_of: &desc_of, pct: cfg.link_pct, decl_phase: true, this_idx: ui };
            for f in &mut s.fields {
                if f.constant_value.is_none() {
                    l.relink_desc(&mut f.desc);
                    if !f.desc.as_bytes().contains(&b'L') && l.r.chance(l.pct / 2) {
                        let dims = if l.r.chance(25) { l.r.range(1, 2) as usize } else { 0 };
                        let mut b = vec![b'['; dims];
                        b.extend_from_slice(obj_desc(&l.pick_class()).as_bytes());
                        f.desc = JStr(b);
                    }
                }
            }
            for m in &mut s.methods {
                l.relink_desc(&mut m.desc);
            }
        }
        // members that override / hide a member of a super type (inside or outside the jar)
        for &a in &anc {
            for (n, d) in u[a].methods.clone() {
                if !n.as_bytes().starts_with(b"<") && r.chance(35) && !s.methods.iter().any(|m| m.name == n && m.desc == d) {
                    s.methods.push(Method { access: if is_itf { 0x0401 } else { 0x0101 }, name: n, desc: d, ..Method::default() });
                }
            }
            for (n, d) in u[a].fields.clone() {
                if r.chance(15) && !s.fields.iter().any(|f| f.name == n && f.desc == d) {
                    s.fields.push(Field { access: if is_itf { 0x0019 } else { 0x0001 }, name: n, desc: d, ..Field::default() });
                }
            }
        }
        // an enum-constant-like field (referenced from annotations)
        if r.chance(35) {
            let n = js(&member_name(r, "K", &mut counter, cfg.unicode));
            s.fields.push(Field { access: 0x4019, name: n.clone(), desc: obj_desc(&s.this_class), ..Field::default() });
            u[ui].enum_consts.push(n);
        }
        // record components name a field of the class
        if let Some(rc) = &mut s.record {
            for c in rc.iter_mut() {
                if c.desc.as_bytes().contains(&b'L') && r.chance(cfg.link_pct) {
                    let i = r.usize(u.len());
                    c.desc = obj_desc(&u[i].name);
                }
                if !s.fields.iter().any(|f| f.name == c.name && f.desc == c.desc) {
                    s.fields.push(Field { access: 0x0012, name: c.name.clone(), desc: c.desc.clone(), ..Field::default() });
                }
            }
        }
        dedupe_members(s);
        if let Some(rc) = &mut s.record {
            // keep component names unique as well
            let mut seen = BTreeSet::new();
            rc.retain(|c| seen.insert(c.name.clone()));
        }
        u[ui].fields = s.fields.iter().map(|f| (f.name.clone(), f.desc.clone())).collect();
        u[ui].methods = s.methods.iter().map(|m| (m.name.clone(), m.desc.clone())).collect();
    }

    // ---- references
    let mut desc_of: Vec<Vec<usize>> = vec![vec![]; u.len()];
    for i in 0..u.len() {
        if u[i].in_jar {
            for d in transitive_supers(&u, i) {
                desc_of[d].push(i);
            }
        }
    }
    for (k, s) in sems.iter_mut().enumerate() {
        if s.module.is_some() {
            continue;
        }
        let mut l = Linker { r, u: &u, desc_of: &desc_of, pct: cfg.link_pct, decl_phase: false, this_idx: n_fixed + k };
        walk(s, &mut l);
        // inner-class records of real nestings
        if let Some(ic) = &mut s.inner_classes {
            let this = st(&s.this_class);
            if let Some(p) = this.rfind('$') {
                ic.push(InnerClass { inner: s.this_class.clone(), outer: Some(js(&this[..p])), inner_name: Some(js(&this[p + 1..])), access: 0x0009 });
            }
        }
    }

    // ---- mapping set
    let mut map = MapSet { ns: vec!["official".into(), "named".into()], doc: None, classes: BTreeMap::new() };
    let mut targets: BTreeMap<String, String> = BTreeMap::new();
    let mut order: Vec<usize> = (0..u.len()).collect();
    order.sort_by(|a, b| u[*a].name.cmp(&u[*b].name));
    let tpk = ["n", "named/pkg", "", "a", "corp", "lib"];
    for &i in &order {
        let name = st(&u[i].name);
        if name == "module-info" || name == "java/lang/Object" || name.ends_with("package-info") {
            continue;
        }
        let roll = r.below(100) as u32;
        if roll >= cfg.map_class_pct + 10 {
            continue; // absent from the mapping set
        }
        let mut cm = ClassM { names: vec![None], ..Default::default() };
        if roll < cfg.map_class_pct {
            let target = loop {
                let cand = match name.rfind('$') {
                    Some(p) if targets.contains_key(&name[..p]) && r.chance(80) => format!("{}${}", targets[&name[..p]], simple_name(r, cfg.unicode)),
                    Some(_) if r.chance(50) => format!("n/O{}${}", r.below(50), simple_name(r, cfg.unicode)),
                    _ => {
                        let pkg = if r.chance(50) {
                            (*r.pick(&tpk)).to_string()
                        } else {
                            name.rfind('/').map(|p| name[..p].to_string()).unwrap_or_default()
                        };
                        let sn = format!("{}_", simple_name(r, cfg.unicode));
                        if pkg.is_empty() {
                            sn
                        } else {
                            format!("{pkg}/{sn}")
                        }
                    }
                };
                if used.insert(cand.clone()) {
                    break cand;
                }
            };
            targets.insert(name.clone(), target.clone());
            cm.names = vec![Some(target)];
        }
        let mut used_f: BTreeSet<String> = BTreeSet::new();
        for (n, d) in &u[i].fields {
            let roll = r.below(100) as u32;
            if roll < cfg.map_member_pct {
                let t = member_name(r, "f_", &mut counter, cfg.unicode);
                used_f.insert(t.clone());
                cm.fields.insert(mkey(&st(n), &st(d)), MemberM { names: vec![Some(t)], ..Default::default() });
            } else if roll < cfg.map_member_pct + 8 {
                cm.fields.insert(mkey(&st(n), &st(d)), MemberM { names: vec![None], ..Default::default() });
            }
        }
        for (n, d) in &u[i].methods {
            if n.as_bytes().starts_with(b"<") {
                continue;
            }
            let roll = r.below(100) as u32;
            if roll < cfg.map_member_pct {
                let t = member_name(r, "m_", &mut counter, cfg.unicode);
                cm.methods.insert(mkey(&st(n), &st(d)), MemberM { names: vec![Some(t)], ..Default::default() });
            } else if roll < cfg.map_member_pct + 8 {
                cm.methods.insert(mkey(&st(n), &st(d)), MemberM { names: vec![None], ..Default::default() });
            }
        }
        map.classes.insert(name, cm);
    }

    // ---- encode
    let mut classes: Vec<(String, Vec<u8>)> = vec![];
    for (name, bytes) in corpus {
        classes.push((name, bytes));
    }
    for s in &sems {
        let mut layout = if cfg.random_layout { refclass::gen_layout(r) } else { refclass::Layout::default() };
        layout.emit_map = false;
        let enc = match refclass::encode(s, &layout) {
            Ok(e) => e,
            Err(_) => match refclass::encode(s, &refclass::Layout::default()) {
                Ok(e) => e,
                Err(_) => continue, // too big after linking: leave the class out
            },
        };
        if std::env::var_os("VERIF_C07_GENCHECK").is_some() {
            if let Err(v) = refclass::validate(&enc.bytes) {
                eprintln!("GENCHECK {:?}: {:?}", st(&s.this_class), v);
            }
            if refclass::parse(&enc.bytes).ok().as_ref() != Some(s) {
                eprintln!("GENCHECK {:?}: parse(encode) differs: {:?}", st(&s.this_class), refclass::parse(&enc.bytes).map(|p| s.diff(&p)));
            }
        }
        classes.push((format!("{}.class", st(&s.this_class)), enc.bytes));
    }
    Workload { classes, map }
}
