//! Reference model of mapping diffs: diff, apply, the textual .tinydiff form (writer and strict reader),
//! and the projection of quill's MappingsDiff.

use crate::refmap::*;
use crate::rng::Rng;
use serde::{Deserialize, Serialize};
use std::collections::BTreeMap;

#[derive(Clone, Debug, PartialEq, Eq, Serialize, Deserialize, Default)]
#[serde(rename_all = "snake_case")]
pub enum Act {
    #[default]
    None,
    Add(String),
    Remove(String),
    Edit(String, String),
}
impl Act {
    pub fn from_pair(a: Option<String>, b: Option<String>) -> Act {
        match (a, b) {
            (None, None) => Act::None,
            (None, Some(b)) => Act::Add(b),
            (Some(a), None) => Act::Remove(a),
            (Some(a), Some(b)) if a == b => Act::None,
            (Some(a), Some(b)) => Act::Edit(a, b),
        }
    }
    pub fn pair(&self) -> (Option<&str>, Option<&str>) {
        match self {
            Act::None => (None, None),
            Act::Add(b) => (None, Some(b)),
            Act::Remove(a) => (Some(a), None),
            Act::Edit(a, b) => (Some(a), Some(b)),
        }
    }
    /// Edit(a,a) says nothing; normal form is None (the textual form cannot tell them apart either)
    pub fn norm(&self) -> Act {
        match self {
            Act::Edit(a, b) if a == b => Act::None,
            x => x.clone(),
        }
    }
    pub fn is_none(&self) -> bool {
        self.norm() == Act::None
    }
}

#[derive(Clone, Debug, PartialEq, Eq, Serialize, Deserialize, Default)]
pub struct DiffSet {
    pub classes: BTreeMap<String, ClassD>,
}
#[derive(Clone, Debug, PartialEq, Eq, Serialize, Deserialize, Default)]
pub struct ClassD {
    pub act: Act,
    pub doc: Act,
    pub fields: BTreeMap<String, MemberD>,
    pub methods: BTreeMap<String, MemberD>,
}
#[derive(Clone, Debug, PartialEq, Eq, Serialize, Deserialize, Default)]
pub struct MemberD {
    pub act: Act,
    pub doc: Act,
    pub params: BTreeMap<usize, ParamD>,
}
#[derive(Clone, Debug, PartialEq, Eq, Serialize, Deserialize, Default)]
pub struct ParamD {
    pub act: Act,
    pub doc: Act,
}

impl DiffSet {
    /// the first node or comment of `self` (normal form) that `o` does not carry identically; None: `o` says
    /// everything `self` says
    pub fn missing_in(&self, o: &DiffSet) -> Option<String> {
        let (a, b) = (self.norm(), o.norm());
        for (k, c) in &a.classes {
            let Some(d) = b.classes.get(k) else { return Some(format!("class {k}")) };
            if c.act != d.act || (c.doc != Act::None && c.doc != d.doc) {
                return Some(format!("class {k} (action or comment)"));
            }
            for (what, x, y) in [("field", &c.fields, &d.fields), ("method", &c.methods, &d.methods)] {
                for (mk, m) in x {
                    let Some(n) = y.get(mk) else { return Some(format!("class {k} {what} {mk}")) };
                    if m.act != n.act || (m.doc != Act::None && m.doc != n.doc) {
                        return Some(format!("class {k} {what} {mk} (action or comment)"));
                    }
                    for (pi, pp) in &m.params {
                        let Some(q) = n.params.get(pi) else { return Some(format!("class {k} {what} {mk} parameter {pi}")) };
                        if pp.act != q.act || (pp.doc != Act::None && pp.doc != q.doc) {
                            return Some(format!("class {k} {what} {mk} parameter {pi} (action or comment)"));
                        }
                    }
                }
            }
        }
        None
    }
    pub fn count(&self) -> usize {
        self.classes.values().map(|c| 1 + c.fields.len() + c.methods.values().map(|m| 1 + m.params.len()).sum::<usize>()).sum()
    }
    /// Normal form: Edit(a,a) -> None everywhere. Nodes are kept (a node with action None still asserts that its
    /// key exists in the target).
    pub fn norm(&self) -> DiffSet {
        let mut d = self.clone();
        for c in d.classes.values_mut() {
            c.act = c.act.norm();
            c.doc = c.doc.norm();
            for m in c.fields.values_mut().chain(c.methods.values_mut()) {
                m.act = m.act.norm();
                m.doc = m.doc.norm();
                for p in m.params.values_mut() {
                    p.act = p.act.norm();
                    p.doc = p.doc.norm();
                }
            }
        }
        d
    }
    pub fn diff_path(&self, o: &DiffSet) -> Option<(String, String)> {
        let (a, b) = (self.norm(), o.norm());
        if a == b {
            return None;
        }
        for (k, c) in &a.classes {
            let Some(oc) = b.classes.get(k) else { return Some(("class[?]".into(), format!("class diff {k:?} missing on the right"))) };
            if c.act != oc.act {
                return Some(("class[?].action".into(), format!("{k:?}: {:?} vs {:?}", c.act, oc.act)));
            }
            if c.doc != oc.doc {
                return Some(("class[?].comment".into(), format!("{k:?}: {:?} vs {:?}", c.doc, oc.doc)));
            }
            for (what, x, y) in [("field", &c.fields, &oc.fields), ("method", &c.methods, &oc.methods)] {
                if x != y {
                    for (mk, m) in x {
                        match y.get(mk) {
                            None => return Some((format!("class[?].{what}[?]"), format!("{k:?}.{mk:?} missing on the right"))),
                            Some(om) if om != m => return Some((format!("class[?].{what}[?].*"), format!("{k:?}.{mk:?}: {m:?} vs {om:?}"))),
                            _ => {}
                        }
                    }
                    return Some((format!("class[?].{what}[?]"), format!("{k:?}: extra {what} diff on the right")));
                }
            }
        }
        Some(("class[?]".into(), "extra class diff on the right".into()))
    }
}

// ------------------------------------------------------------------------------------------------
// diff(A, B): for every key of either side, what must change in the target namespace (index 1)

fn name1(names: &Names) -> Option<String> {
    names.first().cloned().flatten()
}

fn act_names(a: Option<&Names>, b: Option<&Names>) -> Result<Act, String> {
    // an entry present on a side must have a name there: a diff cannot express "present without name"
    match (a, b) {
        (Some(a), None) => Ok(Act::Remove(name1(a).ok_or("removal of an entry without name")?)),
        (None, Some(b)) => Ok(Act::Add(name1(b).ok_or("addition of an entry without name")?)),
        (Some(a), Some(b)) => Ok(Act::Edit(name1(a).ok_or("entry without name on side a")?, name1(b).ok_or("entry without name on side b")?)),
        (None, None) => unreachable!(),
    }
}
fn act_doc(a: Option<&Option<String>>, b: Option<&Option<String>>) -> Act {
    Act::from_pair_keep(a.cloned().flatten(), b.cloned().flatten())
}
impl Act {
    fn from_pair_keep(a: Option<String>, b: Option<String>) -> Act {
        match (a, b) {
            (None, None) => Act::None,
            (None, Some(b)) => Act::Add(b),
            (Some(a), None) => Act::Remove(a),
            (Some(a), Some(b)) => Act::Edit(a, b),
        }
    }
}

fn keys<'a, V>(a: Option<&'a BTreeMap<String, V>>, b: Option<&'a BTreeMap<String, V>>) -> Vec<&'a String> {
    let mut k: Vec<&String> = a.into_iter().flat_map(|m| m.keys()).chain(b.into_iter().flat_map(|m| m.keys())).collect();
    k.sort();
    k.dedup();
    k
}

fn diff_member(a: Option<&MemberM>, b: Option<&MemberM>, param_ns: usize) -> Result<MemberD, String> {
    let mut d = MemberD { act: act_names(a.map(|x| &x.names), b.map(|x| &x.names))?, doc: act_doc(a.map(|x| &x.doc), b.map(|x| &x.doc)), params: BTreeMap::new() };
    let mut idx: Vec<usize> = a.into_iter().flat_map(|m| m.params.keys()).chain(b.into_iter().flat_map(|m| m.params.keys())).copied().collect();
    idx.sort();
    idx.dedup();
    for i in idx {
        let pa = a.and_then(|m| m.params.get(&i));
        let pb = b.and_then(|m| m.params.get(&i));
        let na = pa.map(|p| vec![p.names[param_ns].clone()]);
        let nb = pb.map(|p| vec![p.names[param_ns].clone()]);
        d.params.insert(i, ParamD { act: act_names(na.as_ref(), nb.as_ref())?, doc: act_doc(pa.map(|x| &x.doc), pb.map(|x| &x.doc)) });
    }
    Ok(d)
}

/// Reference diff of two two-namespace sets.
pub fn ref_diff(a: &MapSet, b: &MapSet) -> Result<DiffSet, String> {
    if a.ns != b.ns {
        return Err("namespaces differ".into());
    }
    let mut d = DiffSet::default();
    for k in keys(Some(&a.classes), Some(&b.classes)) {
        let (ca, cb) = (a.classes.get(k), b.classes.get(k));
        let mut cd = ClassD { act: act_names(ca.map(|c| &c.names), cb.map(|c| &c.names))?, doc: act_doc(ca.map(|c| &c.doc), cb.map(|c| &c.doc)), ..Default::default() };
        for fk in keys(ca.map(|c| &c.fields), cb.map(|c| &c.fields)) {
            cd.fields.insert(fk.clone(), diff_member(ca.and_then(|c| c.fields.get(fk)), cb.and_then(|c| c.fields.get(fk)), 1)?);
        }
        for mk in keys(ca.map(|c| &c.methods), cb.map(|c| &c.methods)) {
            cd.methods.insert(mk.clone(), diff_member(ca.and_then(|c| c.methods.get(mk)), cb.and_then(|c| c.methods.get(mk)), 1)?);
        }
        d.classes.insert(k.clone(), cd);
    }
    Ok(d)
}

// ------------------------------------------------------------------------------------------------
// apply(D, A): exactly what the diff says in the target namespace, or refusal

fn apply_opt(act: &Act, cur: Option<String>, what: &str) -> Result<Option<String>, String> {
    match act {
        Act::None => Ok(cur),
        Act::Add(b) => match cur {
            Some(c) => Err(format!("{what}: cannot add {b:?}, target already has {c:?}")),
            None => Ok(Some(b.clone())),
        },
        Act::Remove(a) => match cur {
            Some(c) if &c == a => Ok(None),
            Some(c) => Err(format!("{what}: cannot remove {a:?}, target has {c:?}")),
            None => Err(format!("{what}: cannot remove {a:?}, target has nothing")),
        },
        Act::Edit(a, b) => match cur {
            Some(c) if &c == a => Ok(Some(b.clone())),
            Some(c) => Err(format!("{what}: cannot edit {a:?}, target has {c:?}")),
            None => Err(format!("{what}: cannot edit {a:?}, target has nothing")),
        },
    }
}

/// What an entry-level action does to an entry: Ok(None) = the entry is removed with its subtree,
/// Ok(Some(name)) = the entry stays / is created with this target name.
enum Entry {
    Gone,
    Stays(Option<String>),
}
fn apply_entry(act: &Act, present: Option<Option<String>>, what: &str) -> Result<Entry, String> {
    match present {
        Some(cur) => match act {
            Act::Remove(_) => {
                apply_opt(act, cur, what)?;
                Ok(Entry::Gone)
            }
            _ => Ok(Entry::Stays(apply_opt(act, cur, what)?)),
        },
        None => match act {
            Act::Add(b) => Ok(Entry::Stays(Some(b.clone()))),
            other => Err(format!("{what}: action {other:?} on an entry the target does not have")),
        },
    }
}

fn apply_member(d: &MemberD, cur: Option<MemberM>, what: &str, is_method: bool) -> Result<Option<MemberM>, String> {
    let present = cur.as_ref().map(|m| name1(&m.names));
    match apply_entry(&d.act, present, what)? {
        Entry::Gone => Ok(None),
        Entry::Stays(name) => {
            let mut m = cur.unwrap_or_else(|| MemberM { names: vec![None], ..Default::default() });
            m.names[0] = name;
            m.doc = apply_opt(&d.doc, m.doc.take(), &format!("{what}.comment"))?;
            if !is_method && !d.params.is_empty() {
                return Err(format!("{what}: field diff with parameters"));
            }
            for (i, pd) in &d.params {
                let pcur = m.params.remove(i);
                let pwhat = format!("{what}.param[{i}]");
                let present = pcur.as_ref().map(|p| p.names[1].clone());
                match apply_entry(&pd.act, present, &pwhat)? {
                    Entry::Gone => {}
                    Entry::Stays(name) => {
                        let mut p = pcur.unwrap_or_else(|| ParamM { names: vec![None, None], doc: None });
                        p.names[1] = name;
                        p.doc = apply_opt(&pd.doc, p.doc.take(), &format!("{pwhat}.comment"))?;
                        m.params.insert(*i, p);
                    }
                }
            }
            Ok(Some(m))
        }
    }
}

/// Applies `d` to the two-namespace set `a` (target namespace = index 1).
pub fn ref_apply(d: &DiffSet, a: &MapSet) -> Result<MapSet, String> {
    if a.ns.len() != 2 {
        return Err("reference apply is defined for two namespaces".into());
    }
    let mut out = a.clone();
    for (k, cd) in &d.classes {
        let cur = out.classes.remove(k);
        let what = format!("class {k:?}");
        let present = cur.as_ref().map(|c| name1(&c.names));
        match apply_entry(&cd.act, present, &what)? {
            Entry::Gone => {}
            Entry::Stays(name) => {
                let mut c = cur.unwrap_or_else(|| ClassM { names: vec![None], ..Default::default() });
                c.names[0] = name;
                c.doc = apply_opt(&cd.doc, c.doc.take(), &format!("{what}.comment"))?;
                for (fk, fd) in &cd.fields {
                    let fcur = c.fields.remove(fk);
                    if let Some(f) = apply_member(fd, fcur, &format!("{what}.field {fk:?}"), false)? {
                        c.fields.insert(fk.clone(), f);
                    }
                }
                for (mk, md) in &cd.methods {
                    let mcur = c.methods.remove(mk);
                    if let Some(m) = apply_member(md, mcur, &format!("{what}.method {mk:?}"), true)? {
                        c.methods.insert(mk.clone(), m);
                    }
                }
                out.classes.insert(k.clone(), c);
            }
        }
    }
    Ok(out)
}

// ------------------------------------------------------------------------------------------------
// textual form

fn push_act(out: &mut String, act: &Act, escape: bool, full: bool) {
    let (a, b) = act.pair();
    let e = |s: &str| if escape { esc(s) } else { s.to_string() };
    // trailing empty fields may be omitted (the fixtures do); `full` keeps them
    match (a, b) {
        (None, None) => {
            if full {
                out.push_str("\t\t");
            }
        }
        (Some(a), None) => {
            out.push('\t');
            out.push_str(&e(a));
            if full {
                out.push('\t');
            }
        }
        (a, Some(b)) => {
            out.push('\t');
            out.push_str(&e(a.unwrap_or("")));
            out.push('\t');
            out.push_str(&e(b));
        }
    }
    out.push('\n');
}

/// Writes a diff in the .tinydiff form. `style`: None = canonical (sorted, trailing empties omitted);
/// Some(rng) = a drawn section order and a drawn choice of keeping trailing empty fields.
pub fn write_tinydiff(d: &DiffSet, style: Option<&mut Rng>) -> String {
    let mut dummy = Rng::new(0);
    let drawn = style.is_some();
    let r = style.unwrap_or(&mut dummy);
    let mut out = String::from("tiny\t2\t0\n");
    let mut cls: Vec<_> = d.classes.iter().collect();
    if drawn {
        r.shuffle(&mut cls);
    }
    for (k, c) in cls {
        out.push_str("c\t");
        out.push_str(k);
        push_act(&mut out, &c.act, false, drawn && r.chance(30));
        if !c.doc.is_none() {
            out.push_str("\tc");
            push_act(&mut out, &c.doc, true, drawn && r.chance(30));
        }
        let mut members: Vec<(bool, &String, &MemberD)> = c.fields.iter().map(|(k, v)| (true, k, v)).chain(c.methods.iter().map(|(k, v)| (false, k, v))).collect();
        if drawn {
            r.shuffle(&mut members);
        }
        for (is_f, mk, m) in members {
            let (name, desc) = split_mkey(mk);
            out.push_str(if is_f { "\tf\t" } else { "\tm\t" });
            out.push_str(desc);
            out.push('\t');
            out.push_str(name);
            push_act(&mut out, &m.act, false, drawn && r.chance(30));
            if !m.doc.is_none() {
                out.push_str("\t\tc");
                push_act(&mut out, &m.doc, true, drawn && r.chance(30));
            }
            for (i, p) in &m.params {
                out.push_str("\t\tp\t");
                out.push_str(&i.to_string());
                out.push('\t');
                push_act(&mut out, &p.act, false, drawn && r.chance(30));
                if !p.doc.is_none() {
                    out.push_str("\t\t\tc");
                    push_act(&mut out, &p.doc, true, drawn && r.chance(30));
                }
            }
        }
    }
    out
}

struct DLine<'a> {
    no: usize,
    indent: usize,
    fields: Vec<&'a str>,
}

fn act_of(l: &DLine, from: usize, unescape: bool, valid: Option<fn(&str) -> bool>) -> Result<Act, String> {
    if l.fields.len() > from + 2 {
        return Err(format!("line {}: too many fields", l.no));
    }
    let get = |i: usize| -> Result<Option<String>, String> {
        match l.fields.get(i).copied().filter(|s| !s.is_empty()) {
            None => Ok(None),
            Some(s) => {
                if let Some(v) = valid {
                    if !v(s) {
                        return Err(format!("line {}: invalid name {s:?}", l.no));
                    }
                }
                Ok(Some(if unescape { s.replace("\\n", "\n") } else { s.to_string() }))
            }
        }
    };
    Ok(Act::from_pair(get(from)?, get(from + 1)?))
}

/// Strict reference reader of the .tinydiff form.
pub fn read_tinydiff(bytes: &[u8]) -> Result<DiffSet, String> {
    let lines: Vec<DLine> = split_lines(bytes)?
        .into_iter()
        .enumerate()
        .map(|(i, l)| {
            let indent = l.bytes().take_while(|b| *b == b'\t').count();
            DLine { no: i + 1, indent, fields: l[indent..].split('\t').collect() }
        })
        .collect();
    let mut it = lines.iter().peekable();
    let h = it.next().ok_or("no header")?;
    if h.indent != 0 || h.fields != ["tiny", "2", "0"] {
        return Err("bad header".into());
    }
    let mut d = DiffSet::default();
    fn doc(l: &DLine, slot: &mut Act, seen: &mut bool) -> Result<(), String> {
        if *seen {
            return Err(format!("line {}: second comment diff", l.no));
        }
        *seen = true;
        *slot = act_of(l, 1, true, None)?;
        Ok(())
    }
    while let Some(l) = it.next() {
        if l.indent != 0 {
            return Err(format!("line {}: indentation", l.no));
        }
        if l.fields[0] != "c" {
            continue; // unknown section: skipped
        }
        if l.fields.len() < 2 {
            return Err(format!("line {}: class diff without key", l.no));
        }
        let key = l.fields[1];
        if !valid_obj_class_name(key) {
            return Err(format!("line {}: invalid class key", l.no));
        }
        let mut c = ClassD { act: act_of(l, 2, false, Some(valid_obj_class_name))?, ..Default::default() };
        let mut seen = false;
        while let Some(l) = it.peek().filter(|l| l.indent >= 1) {
            let l = *l;
            it.next();
            if l.indent != 1 {
                return Err(format!("line {}: indentation", l.no));
            }
            match l.fields[0] {
                "c" => doc(l, &mut c.doc, &mut seen)?,
                "f" | "m" => {
                    let is_f = l.fields[0] == "f";
                    if l.fields.len() < 3 {
                        return Err(format!("line {}: short", l.no));
                    }
                    let (desc, name) = (l.fields[1], l.fields[2]);
                    let valid: fn(&str) -> bool = if is_f { valid_unqualified } else { valid_method_name };
                    if !valid(name) {
                        return Err(format!("line {}: invalid member key", l.no));
                    }
                    let mut m = MemberD { act: act_of(l, 3, false, Some(valid))?, ..Default::default() };
                    let mut seen = false;
                    while let Some(l) = it.peek().filter(|l| l.indent >= 2) {
                        let l = *l;
                        it.next();
                        if l.indent != 2 {
                            return Err(format!("line {}: indentation", l.no));
                        }
                        match l.fields[0] {
                            "c" => doc(l, &mut m.doc, &mut seen)?,
                            "p" if !is_f => {
                                if l.fields.len() < 3 {
                                    return Err(format!("line {}: short", l.no));
                                }
                                let idx: usize = l.fields[1].parse().map_err(|_| format!("line {}: bad index", l.no))?;
                                if !l.fields[2].is_empty() {
                                    return Err(format!("line {}: parameter diff with a source name", l.no));
                                }
                                let mut p = ParamD { act: act_of(l, 3, false, Some(valid_unqualified))?, doc: Act::None };
                                let mut seen = false;
                                while let Some(l) = it.peek().filter(|l| l.indent >= 3) {
                                    let l = *l;
                                    it.next();
                                    if l.indent != 3 {
                                        return Err(format!("line {}: indentation", l.no));
                                    }
                                    if l.fields[0] == "c" {
                                        doc(l, &mut p.doc, &mut seen)?;
                                    }
                                }
                                if m.params.insert(idx, p).is_some() {
                                    return Err(format!("line {}: duplicate parameter diff", l.no));
                                }
                            }
                            _ => {} // unknown sub-section: skipped
                        }
                    }
                    let map = if is_f { &mut c.fields } else { &mut c.methods };
                    if map.insert(mkey(name, desc), m).is_some() {
                        return Err(format!("line {}: duplicate member diff", l.no));
                    }
                }
                _ => {} // unknown sub-section: skipped
            }
        }
        if d.classes.insert(key.to_string(), c).is_some() {
            return Err(format!("line {}: duplicate class diff", l.no));
        }
    }
    Ok(d)
}

// ------------------------------------------------------------------------------------------------
// generation: a successor state of `a` (an edit history step), and perturbations of a diff

pub fn evolve(r: &mut Rng, a: &MapSet, cfg: &GenCfg, intensity: u32) -> MapSet {
    let mut b = a.clone();
    let keys: Vec<String> = a.classes.keys().cloned().collect();
    let all: Vec<String> = keys.clone();
    for k in &keys {
        if !r.chance(intensity) {
            continue;
        }
        match r.below(10) {
            0 => {
                b.classes.remove(k);
                continue;
            }
            1 | 2 => b.classes.get_mut(k).unwrap().names[0] = Some(gen_class_name(r, cfg.unicode)),
            _ => {}
        }
        let c = b.classes.get_mut(k).unwrap();
        match r.below(4) {
            0 => c.doc = Some(gen_comment(r, cfg)),
            1 => c.doc = None,
            _ => {}
        }
        let fkeys: Vec<String> = c.fields.keys().cloned().collect();
        for fk in fkeys {
            match r.below(8) {
                0 => {
                    c.fields.remove(&fk);
                }
                1 => c.fields.get_mut(&fk).unwrap().names[0] = Some(gen_ident(r, cfg.unicode)),
                2 => c.fields.get_mut(&fk).unwrap().doc = if r.chance(50) { Some(gen_comment(r, cfg)) } else { None },
                _ => {}
            }
        }
        if r.chance(30) {
            let d = gen_field_desc(r, &all);
            c.fields.entry(mkey(&gen_ident(r, cfg.unicode), &d)).or_insert(MemberM { names: vec![Some(gen_ident(r, cfg.unicode))], doc: if r.chance(30) { Some(gen_comment(r, cfg)) } else { None }, params: BTreeMap::new() });
        }
        let mkeys: Vec<String> = c.methods.keys().cloned().collect();
        for mk in mkeys {
            match r.below(8) {
                0 => {
                    c.methods.remove(&mk);
                    continue;
                }
                1 => {
                    if !mk.starts_with("<init>") {
                        c.methods.get_mut(&mk).unwrap().names[0] = Some(gen_ident(r, cfg.unicode))
                    }
                }
                2 => c.methods.get_mut(&mk).unwrap().doc = if r.chance(50) { Some(gen_comment(r, cfg)) } else { None },
                _ => {}
            }
            let m = c.methods.get_mut(&mk).unwrap();
            let pk: Vec<usize> = m.params.keys().copied().collect();
            for pi in pk {
                match r.below(6) {
                    0 => {
                        m.params.remove(&pi);
                    }
                    1 => m.params.get_mut(&pi).unwrap().names[1] = Some(gen_ident(r, cfg.unicode)),
                    2 => m.params.get_mut(&pi).unwrap().doc = if r.chance(50) { Some(gen_comment(r, cfg)) } else { None },
                    _ => {}
                }
            }
            if r.chance(25) {
                let pi = r.below(6) as usize;
                m.params.entry(pi).or_insert(ParamM { names: vec![None, Some(gen_ident(r, cfg.unicode))], doc: if r.chance(30) { Some(gen_comment(r, cfg)) } else { None } });
            }
        }
        if r.chance(30) {
            let (d, _) = gen_method_desc(r, &all);
            c.methods.entry(mkey(&gen_ident(r, cfg.unicode), &d)).or_insert(MemberM { names: vec![Some(gen_ident(r, cfg.unicode))], doc: None, params: BTreeMap::new() });
        }
    }
    // new classes
    for _ in 0..r.below(3) {
        if r.chance(intensity) {
            let one = gen_mapset(r, &GenCfg { max_classes: 1, ..cfg.clone() });
            for (k, mut c) in one.classes {
                if !b.classes.contains_key(&k) {
                    if c.names[0].is_none() {
                        c.names[0] = Some(gen_class_name(r, cfg.unicode));
                    }
                    b.classes.insert(k, c);
                }
            }
        }
    }
    b
}

/// One perturbation making a diff (possibly) inconsistent with its intended target.
pub fn perturb(r: &mut Rng, d: &DiffSet) -> DiffSet {
    let mut d = d.clone();
    let other = |r: &mut Rng, a: &Act| -> Act {
        let x = format!("zz{}", r.below(50));
        match (a, r.below(5)) {
            (_, 0) => Act::None,
            (_, 1) => Act::Add(x),
            (Act::Remove(a), 2) | (Act::Edit(a, _), 2) => Act::Remove(a.clone()),
            (_, 2) => Act::Remove(x),
            (Act::Remove(a), 3) | (Act::Edit(a, _), 3) => Act::Edit(a.clone(), x),
            (Act::Add(b), 3) => Act::Edit(x, b.clone()),
            (_, 3) => Act::Edit(x.clone(), format!("{x}q")),
            (Act::Edit(_, b), _) => Act::Edit(x, b.clone()),
            (Act::Remove(_), _) => Act::Remove(x),
            (Act::Add(_), _) => Act::Remove(x),
            (Act::None, _) => Act::Edit(x.clone(), format!("{x}q")),
        }
    };
    let ckeys: Vec<String> = d.classes.keys().cloned().collect();
    if ckeys.is_empty() || r.chance(10) {
        // a node for a key the target may not have
        d.classes.insert(format!("ghost/G{}", r.below(9)), ClassD { act: other(r, &Act::None), ..Default::default() });
        return d;
    }
    let ck = r.pick(&ckeys).clone();
    let c = d.classes.get_mut(&ck).unwrap();
    let level = r.below(6);
    match level {
        0 => c.act = other(r, &c.act.clone()),
        1 => c.doc = other(r, &c.doc.clone()),
        2 | 3 => {
            let map = if level == 2 { &mut c.fields } else { &mut c.methods };
            let mk: Vec<String> = map.keys().cloned().collect();
            if mk.is_empty() {
                map.insert(mkey("ghost", if level == 2 { "I" } else { "()V" }), MemberD { act: other(r, &Act::None), ..Default::default() });
            } else {
                let k = r.pick(&mk).clone();
                let m = map.get_mut(&k).unwrap();
                if r.chance(50) {
                    m.act = other(r, &m.act.clone());
                } else {
                    m.doc = other(r, &m.doc.clone());
                }
            }
        }
        _ => {
            let mk: Vec<String> = c.methods.keys().cloned().collect();
            if mk.is_empty() {
                c.act = other(r, &c.act.clone());
            } else {
                let k = r.pick(&mk).clone();
                let m = c.methods.get_mut(&k).unwrap();
                let pk: Vec<usize> = m.params.keys().copied().collect();
                if pk.is_empty() {
                    m.params.insert(r.below(4) as usize, ParamD { act: other(r, &Act::None), doc: Act::None });
                } else {
                    let i = *r.pick(&pk);
                    let p = m.params.get_mut(&i).unwrap();
                    if r.chance(50) {
                        p.act = other(r, &p.act.clone());
                    } else {
                        p.doc = other(r, &p.doc.clone());
                    }
                }
            }
        }
    }
    d
}
