//! Reference union model for C13, written from the property statement (not from merge.rs):
//!
//! * every entry of either jar exactly once, minus signature files and bundled server libraries;
//! * a class on one side only carries that side's mark;
//! * a class byte-identical on both sides is passed through byte-identical;
//! * a class differing between sides contains every field, method and interface of either side exactly once,
//!   one-sided members and interfaces marked with their side, shared members unmarked, and each side's relative
//!   order kept whenever the two orders are compatible.
//!
//! Facts of the API taken from the code under test (and only these): the descriptors of the mark annotations
//! (`net/fabricmc/api/{Environment, EnvType, EnvironmentInterface(s)}`), the entry-kind rule (`*.class` = class,
//! zip directory = directory), what counts as a bundled server library (a class entry present on the server side
//! only, inside a package other than `net/minecraft/`), and the fixed replacement manifest.
//!
//! Output classes are looked at ONLY through `refclass::parse`.

use refclass::sem::{Annotation, Annotations, ElementValue, Sem};
use refclass::JStr;
use std::collections::BTreeMap;
use std::io::{Cursor, Read};
use zip::ZipArchive;

pub const ENV: &[u8] = b"Lnet/fabricmc/api/Environment;";
pub const ENV_ITF: &[u8] = b"Lnet/fabricmc/api/EnvironmentInterface;";
pub const ENV_ITFS: &[u8] = b"Lnet/fabricmc/api/EnvironmentInterfaces;";
pub const ENV_TYPE: &[u8] = b"Lnet/fabricmc/api/EnvType;";
pub const FIXED_MANIFEST: &[u8] = b"Manifest-Version: 1.0\nMain-Class: net.minecraft.client.Main\n";
pub const MANIFEST: &str = "META-INF/MANIFEST.MF";

#[derive(Clone, Copy, PartialEq, Eq, Debug, PartialOrd, Ord)]
pub enum Side {
    Client,
    Server,
}
impl Side {
    pub fn word(self) -> &'static str {
        match self {
            Side::Client => "client",
            Side::Server => "server",
        }
    }
}

/// What the zip crate hands out for one entry of an input jar.
#[derive(Clone, Debug, PartialEq, Eq)]
pub enum InContent {
    Dir,
    File(Vec<u8>),
    /// the entry cannot even be opened (local header damaged, unsupported method, ...)
    OpenErr(String),
    /// the entry opens but its content does not come out (CRC mismatch, corrupt deflate stream, short data)
    ReadErr(String),
}
pub type InEntry = (String, InContent);

/// Opens jar bytes with the zip crate over a plain cursor; per-entry failures are kept per entry, because the
/// merge does not have to read entries it drops.
pub fn open_lazy(bytes: &[u8]) -> Result<Vec<InEntry>, String> {
    let mut z = ZipArchive::new(Cursor::new(bytes)).map_err(|e| format!("not a zip archive: {e}"))?;
    let mut out = vec![];
    for i in 0..z.len() {
        let name = z.name_for_index(i).unwrap_or("").to_string();
        match z.by_index(i) {
            Err(e) => out.push((name, InContent::OpenErr(e.to_string()))),
            Ok(mut f) => {
                if f.is_dir() {
                    out.push((name, InContent::Dir));
                } else {
                    let mut b = Vec::new();
                    match f.read_to_end(&mut b) {
                        Ok(_) => out.push((name, InContent::File(b))),
                        Err(e) => out.push((name, InContent::ReadErr(e.to_string()))),
                    }
                }
            }
        }
    }
    Ok(out)
}

pub fn is_class_name(name: &str) -> bool {
    name.ends_with(".class")
}

#[derive(Clone, Copy, PartialEq, Eq, Debug)]
pub enum NameRule {
    Keep,
    /// must not be in the output; the tag names the reason (part of the violation path)
    Drop(&'static str),
    /// the property does not decide (not generated on purpose; tolerated either way)
    Either,
}

/// Entry-level rule of the property for a name that occurs in at least one input jar.
pub fn name_rule(name: &str, on_client: bool, on_server: bool) -> NameRule {
    if name == MANIFEST {
        return NameRule::Keep;
    }
    if let Some(rest) = name.strip_prefix("META-INF/") {
        let upper = rest.to_ascii_uppercase();
        let ext_sig = upper.ends_with(".SF") || upper.ends_with(".RSA");
        let ext_block = upper.ends_with(".DSA") || upper.ends_with(".EC");
        let exact_case = rest.ends_with(".SF") || rest.ends_with(".RSA") || rest.ends_with(".DSA") || rest.ends_with(".EC");
        if rest.contains('/') {
            // signature files live directly in META-INF; for deeper names the property is silent
            if ext_sig || ext_block {
                return NameRule::Either;
            }
        } else if ext_sig || ext_block {
            if !exact_case {
                return NameRule::Either;
            }
            // `.SF` = signature file, `.RSA/.DSA/.EC` = signature block files of the JAR specification
            return NameRule::Drop(if ext_sig { "signature-sf-rsa" } else { "signature-block-dsa-ec" });
        } else if upper.starts_with("SIG-") {
            return NameRule::Either;
        }
    }
    if on_server && !on_client && is_class_name(name) && name.contains('/') && !name.starts_with("net/minecraft/") {
        return NameRule::Drop("server-library");
    }
    NameRule::Keep
}

#[derive(Clone, Debug, PartialEq, Eq)]
pub enum Expect {
    Dir,
    /// exact content; `what` names the rule (part of the violation path)
    Bytes { bytes: Vec<u8>, what: &'static str },
    /// a class of one side only: the source class plus that side's mark
    OneSided { src: Vec<u8>, side: Side },
    /// a class on both sides with different bytes
    Merged { client: Vec<u8>, server: Vec<u8> },
    /// the merge needs this entry, and the medium does not deliver it: the merge cannot succeed
    Unreadable(String),
    /// both sides have the name, one as a directory and one as a file: the property does not say; merge may fail
    KindConflict,
}

#[derive(Default, Debug)]
pub struct RefMerge {
    pub entries: BTreeMap<String, Expect>,
    /// names that must be absent, with the reason tag
    pub dropped: BTreeMap<String, &'static str>,
    /// names the property does not decide
    pub either: Vec<String>,
    /// reasons for which the merge may (not must) fail
    pub may_fail: Vec<String>,
}
impl RefMerge {
    pub fn must_fail(&self) -> Option<String> {
        self.entries.iter().find_map(|(n, e)| match e {
            Expect::Unreadable(why) => Some(format!("{n}: {why}")),
            _ => None,
        })
    }
    pub fn may_fail(&self) -> bool {
        !self.may_fail.is_empty() || self.entries.values().any(|e| matches!(e, Expect::KindConflict))
    }
}

fn first_by_name<'a>(side: &'a [InEntry]) -> BTreeMap<&'a str, &'a InContent> {
    let mut m = BTreeMap::new();
    for (n, c) in side {
        m.entry(n.as_str()).or_insert(c);
    }
    m
}

/// The reference union of two jars.
pub fn reference(client: &[InEntry], server: &[InEntry]) -> RefMerge {
    let c = first_by_name(client);
    let s = first_by_name(server);
    let mut names: Vec<&str> = c.keys().chain(s.keys()).copied().collect();
    names.sort();
    names.dedup();
    let mut out = RefMerge::default();
    for name in names {
        let (ec, es) = (c.get(name).copied(), s.get(name).copied());
        match name_rule(name, ec.is_some(), es.is_some()) {
            NameRule::Drop(tag) => {
                out.dropped.insert(name.to_string(), tag);
                continue;
            }
            NameRule::Either => {
                out.either.push(name.to_string());
                continue;
            }
            NameRule::Keep => {}
        }
        let unreadable = |e: &InContent| match e {
            InContent::OpenErr(m) => Some(format!("cannot be opened: {m}")),
            InContent::ReadErr(m) => Some(format!("content unreadable: {m}")),
            _ => None,
        };
        let exp = if name == MANIFEST {
            // content is replaced; only the entry itself has to be reachable
            let open_err = [ec, es].into_iter().flatten().find_map(|e| match e {
                InContent::OpenErr(m) => Some(m.clone()),
                _ => None,
            });
            // which side's attributes are consulted is not the property's business: an unopenable manifest entry
            // MAY fail the merge
            if let Some(m) = open_err {
                out.may_fail.push(format!("{name}: cannot be opened: {m}"));
            }
            Expect::Bytes { bytes: FIXED_MANIFEST.to_vec(), what: "manifest" }
        } else if let Some(why) = [ec, es].into_iter().flatten().find_map(unreadable) {
            Expect::Unreadable(why)
        } else {
            match (ec, es) {
                (Some(InContent::Dir), None) | (None, Some(InContent::Dir)) | (Some(InContent::Dir), Some(InContent::Dir)) => Expect::Dir,
                (Some(InContent::Dir), Some(_)) | (Some(_), Some(InContent::Dir)) => Expect::KindConflict,
                (Some(InContent::File(b)), None) => {
                    if is_class_name(name) {
                        Expect::OneSided { src: b.clone(), side: Side::Client }
                    } else {
                        Expect::Bytes { bytes: b.clone(), what: "resource" }
                    }
                }
                (None, Some(InContent::File(b))) => {
                    if is_class_name(name) {
                        Expect::OneSided { src: b.clone(), side: Side::Server }
                    } else {
                        Expect::Bytes { bytes: b.clone(), what: "resource" }
                    }
                }
                (Some(InContent::File(a)), Some(InContent::File(b))) => {
                    if is_class_name(name) {
                        if a == b {
                            Expect::Bytes { bytes: a.clone(), what: "identical-class" }
                        } else {
                            Expect::Merged { client: a.clone(), server: b.clone() }
                        }
                    } else if a == b {
                        Expect::Bytes { bytes: a.clone(), what: "resource" }
                    } else {
                        // ASSUMPTION (the property is silent): the client's version of a conflicting resource is kept
                        Expect::Bytes { bytes: a.clone(), what: "resource-conflict" }
                    }
                }
                _ => unreachable!("readable entries only"),
            }
        };
        out.entries.insert(name.to_string(), exp);
    }
    out
}

// ------------------------------------------------------------------------------------------------------------
// observation of a merge result

#[derive(Clone, Debug, PartialEq, Eq)]
pub enum Obs {
    Dir,
    Class(Vec<u8>),
    Other(Vec<u8>),
}
impl Obs {
    pub fn kind(&self) -> &'static str {
        match self {
            Obs::Dir => "dir",
            Obs::Class(_) => "class",
            Obs::Other(_) => "other",
        }
    }
}

#[derive(Clone, Debug, PartialEq, Eq)]
pub struct Issue {
    pub class: &'static str,
    pub path: String,
    pub detail: String,
}
fn issue(class: &'static str, path: impl Into<String>, detail: impl Into<String>) -> Issue {
    Issue { class, path: path.into(), detail: detail.into() }
}

/// Counters the engine turns into probes.
#[derive(Default, Debug)]
pub struct Seen {
    pub identical_class: u64,
    pub onesided_client: u64,
    pub onesided_server: u64,
    pub merged: u64,
    pub merged_compatible: u64,
    pub merged_incompatible: u64,
    pub merged_itf_onesided: u64,
    pub interface_order_not_kept: u64,
    pub merged_member_onesided: u64,
    pub merged_member_shared_differs: u64,
    pub sig_dropped: u64,
    pub lib_dropped: u64,
    pub res_conflict: u64,
    pub manifest: u64,
    pub dirs: u64,
    pub classlevel_differs_from_client: u64,
    pub classlevel_note: Option<String>,
    pub known_frames: u64,
    pub known_localvars: u64,
    pub input_class_unparsable: u64,
    pub exact_class_compares: u64,
}

fn category(e: &Expect) -> &'static str {
    match e {
        Expect::Dir => "dir",
        Expect::Bytes { what, .. } => what,
        Expect::OneSided { .. } => "onesided-class",
        Expect::Merged { .. } => "merged-class",
        Expect::Unreadable(_) => "unreadable",
        Expect::KindConflict => "kind-conflict",
    }
}

/// Compares an observed merge result with the reference. Order of entries is not constrained.
pub fn check(r: &RefMerge, actual: &[(String, Obs)], seen: &mut Seen) -> Vec<Issue> {
    let mut out = vec![];
    let mut by_name: BTreeMap<&str, Vec<&Obs>> = BTreeMap::new();
    for (n, o) in actual {
        by_name.entry(n.as_str()).or_default().push(o);
    }
    for (n, v) in &by_name {
        if v.len() > 1 {
            out.push(issue("semantic-mismatch", "entries.duplicate", format!("{n:?} occurs {} times", v.len())));
        }
        if let Some(tag) = r.dropped.get(*n) {
            out.push(issue("semantic-mismatch", format!("entries.unexpected.{tag}"), format!("{n:?} must not be in the merged jar ({tag})")));
        } else if !r.entries.contains_key(*n) && !r.either.iter().any(|x| x == n) {
            out.push(issue("semantic-mismatch", "entries.unexpected.unknown-name", format!("{n:?} is in neither input jar")));
        }
    }
    for tag in r.dropped.values() {
        match *tag {
            "server-library" => seen.lib_dropped += 1,
            _ => seen.sig_dropped += 1,
        }
    }
    for (n, e) in &r.entries {
        let Some(obs) = by_name.get(n.as_str()).map(|v| v[0]) else {
            out.push(issue("semantic-mismatch", format!("entries.missing.{}", category(e)), format!("{n:?} is missing from the merged jar")));
            continue;
        };
        match e {
            Expect::Unreadable(_) | Expect::KindConflict => {}
            Expect::Dir => {
                seen.dirs += 1;
                if *obs != Obs::Dir {
                    out.push(issue("semantic-mismatch", "entries.kind.dir", format!("{n:?} is a directory in the inputs, {} in the result", obs.kind())));
                }
            }
            Expect::Bytes { bytes, what } => {
                match *what {
                    "identical-class" => seen.identical_class += 1,
                    "resource-conflict" => seen.res_conflict += 1,
                    "manifest" => seen.manifest += 1,
                    _ => {}
                }
                let want_class = is_class_name(n);
                match obs {
                    Obs::Dir => out.push(issue("semantic-mismatch", format!("entries.kind.{what}"), format!("{n:?} became a directory"))),
                    Obs::Class(b) | Obs::Other(b) => {
                        if want_class != matches!(obs, Obs::Class(_)) {
                            out.push(issue("semantic-mismatch", format!("entries.kind.{what}"), format!("{n:?} has kind {}", obs.kind())));
                        }
                        if b != bytes {
                            out.push(issue("semantic-mismatch", format!("{what}.content"), format!("{n:?}: {}", first_byte_diff(bytes, b))));
                        }
                    }
                }
            }
            Expect::OneSided { src, side } => {
                match side {
                    Side::Client => seen.onesided_client += 1,
                    Side::Server => seen.onesided_server += 1,
                }
                match obs {
                    Obs::Class(b) => check_onesided(n, src, *side, b, seen, &mut out),
                    o => out.push(issue("semantic-mismatch", "entries.kind.onesided-class", format!("{n:?} has kind {}", o.kind()))),
                }
            }
            Expect::Merged { client, server } => {
                seen.merged += 1;
                match obs {
                    Obs::Class(b) => check_merged(n, client, server, b, seen, &mut out),
                    o => out.push(issue("semantic-mismatch", "entries.kind.merged-class", format!("{n:?} has kind {}", o.kind()))),
                }
            }
        }
    }
    out
}

pub fn first_byte_diff(a: &[u8], b: &[u8]) -> String {
    let n = a.iter().zip(b.iter()).position(|(x, y)| x != y).unwrap_or(a.len().min(b.len()));
    format!("expected {} bytes, got {} bytes, first difference at offset {n}", a.len(), b.len())
}

// ------------------------------------------------------------------------------------------------------------
// marks

fn is_side_mark(a: &Annotation) -> bool {
    a.type_desc.as_bytes() == ENV
}

/// `Some(side)` iff the annotation is exactly `@Environment(value = EnvType.<SIDE>)`.
fn side_of_mark(a: &Annotation) -> Option<Side> {
    if a.pairs.len() != 1 || a.pairs[0].name.as_bytes() != b"value" {
        return None;
    }
    side_of_value(&a.pairs[0].value)
}
fn side_of_value(v: &ElementValue) -> Option<Side> {
    match v {
        ElementValue::Enum { type_desc, const_name } if type_desc.as_bytes() == ENV_TYPE => match const_name.as_bytes() {
            b"CLIENT" => Some(Side::Client),
            b"SERVER" => Some(Side::Server),
            _ => None,
        },
        _ => None,
    }
}

/// Removes every `@Environment` annotation from a (visible, invisible) pair of lists; returns them.
fn take_side_marks(a: &mut Annotations) -> Vec<Annotation> {
    let mut marks = vec![];
    for list in [&mut a.visible, &mut a.invisible] {
        let mut i = 0;
        while i < list.len() {
            if is_side_mark(&list[i]) {
                marks.push(list.remove(i));
            } else {
                i += 1;
            }
        }
    }
    marks
}

/// Judges the marks found on one element against the expected side (None = must be unmarked).
fn judge_marks(marks: &[Annotation], want: Option<Side>, path: &str, what: &str, out: &mut Vec<Issue>) {
    match want {
        None => {
            if !marks.is_empty() {
                out.push(issue("semantic-mismatch", format!("{path}.mark.unexpected"), format!("{what} is present on both sides but carries a side mark: {:?}", marks[0])));
            }
        }
        Some(side) => {
            if marks.is_empty() {
                out.push(issue("semantic-mismatch", format!("{path}.mark.missing"), format!("{what} is present on the {} side only but carries no side mark", side.word())));
            } else if marks.len() > 1 {
                out.push(issue("semantic-mismatch", format!("{path}.mark.duplicate"), format!("{what} carries {} side marks", marks.len())));
            } else {
                match side_of_mark(&marks[0]) {
                    Some(s) if s == side => {}
                    Some(s) => out.push(issue("semantic-mismatch", format!("{path}.mark.wrong-side"), format!("{what} is present on the {} side only but is marked {}", side.word(), s.word()))),
                    None => out.push(issue("semantic-mismatch", format!("{path}.mark.malformed"), format!("{what}: side mark is not @Environment(value=EnvType.X): {:?}", marks[0]))),
                }
            }
        }
    }
}

fn parse_in(name: &str, bytes: &[u8], seen: &mut Seen) -> Option<Sem> {
    match refclass::parse(bytes) {
        Ok(s) => Some(s),
        Err(_) => {
            // the reference cannot read an INPUT class: it has no opinion about this entry
            let _ = name;
            seen.input_class_unparsable += 1;
            None
        }
    }
}

/// Makes `want` agree with `got` at the place `path` points into, so that the comparison can go on behind a
/// difference that was already reported. Returns false when the path is not understood (comparison stops).
fn neutralise(want: &mut Sem, got: &mut Sem, path: &str) -> bool {
    let abstracted = crate::engine::abstract_indices(path);
    let index = |p: &str| -> Option<usize> { p.split('[').nth(1)?.split(']').next()?.parse().ok() };
    if abstracted.starts_with("method[*].code.frame") {
        for m in want.methods.iter_mut().chain(got.methods.iter_mut()) {
            if let Some(c) = &mut m.code {
                c.frames.clear();
            }
        }
        return true;
    }
    if abstracted.starts_with("method[*].code.local_var") {
        for m in want.methods.iter_mut().chain(got.methods.iter_mut()) {
            if let Some(c) = &mut m.code {
                c.local_vars.clear();
                c.local_var_types.clear();
            }
        }
        return true;
    }
    if abstracted.starts_with("method[*].code.unknown") {
        for m in want.methods.iter_mut().chain(got.methods.iter_mut()) {
            if let Some(c) = &mut m.code {
                c.unknown.clear();
            }
        }
        return true;
    }
    if abstracted.starts_with("method[*].parameter_annotations") {
        for m in want.methods.iter_mut().chain(got.methods.iter_mut()) {
            m.parameter_annotations = Default::default();
        }
        return true;
    }
    let top = path.split(['.', '[']).next().unwrap_or("");
    match top {
        "method" => match index(path) {
            Some(i) if i < want.methods.len() && i < got.methods.len() => want.methods[i] = got.methods[i].clone(),
            _ => return false,
        },
        "field" => match index(path) {
            Some(i) if i < want.fields.len() && i < got.fields.len() => want.fields[i] = got.fields[i].clone(),
            _ => return false,
        },
        "minor" => want.minor = got.minor,
        "major" => want.major = got.major,
        "access" => want.access = got.access,
        "this_class" => want.this_class = got.this_class.clone(),
        "super_class" => want.super_class = got.super_class.clone(),
        "interface" => want.interfaces = got.interfaces.clone(),
        "source_file" => want.source_file = got.source_file.clone(),
        "source_debug_extension" => want.source_debug_extension = got.source_debug_extension.clone(),
        "inner_class" => want.inner_classes = got.inner_classes.clone(),
        "enclosing_method" => want.enclosing_method = got.enclosing_method.clone(),
        "signature" => want.signature = got.signature.clone(),
        "synthetic" => want.synthetic = got.synthetic,
        "deprecated" => want.deprecated = got.deprecated,
        "annotations" => want.annotations = got.annotations.clone(),
        "type_annotations" => want.type_annotations = got.type_annotations.clone(),
        "nest_host" => want.nest_host = got.nest_host.clone(),
        "nest_member" => want.nest_members = got.nest_members.clone(),
        "permitted_subclass" => want.permitted_subclasses = got.permitted_subclasses.clone(),
        "record_component" => want.record = got.record.clone(),
        "module" => want.module = got.module.clone(),
        "module_package" => want.module_packages = got.module_packages.clone(),
        "module_main_class" => want.module_main_class = got.module_main_class.clone(),
        "unknown" => want.unknown = got.unknown.clone(),
        _ => return false,
    }
    true
}

/// Diffs `want` against `got` and reports EVERY difference under `<stage>.<Sem::diff path>`: after a difference is
/// reported it is neutralised and the comparison continues, so that one finding (e.g. the known duke defects: frames
/// never written, local variables dropped on read) hides nothing else in the same class.
fn diff_with_known(stage: &str, name: &str, want: &Sem, got: &Sem, seen: &mut Seen, out: &mut Vec<Issue>) {
    let mut want = want.clone();
    let mut got = got.clone();
    let mut exact = true;
    for _ in 0..24 {
        let Some(path) = want.diff(&got) else {
            if exact {
                seen.exact_class_compares += 1;
            }
            return;
        };
        exact = false;
        let abstracted = crate::engine::abstract_indices(&path);
        if abstracted.starts_with("method[*].code.frame") {
            seen.known_frames += 1;
        } else if abstracted.starts_with("method[*].code.local_var") {
            seen.known_localvars += 1;
        }
        out.push(issue("semantic-mismatch", format!("{stage}.{path}"), format!("{name:?}: first difference at {path}")));
        if std::env::var_os("C13_DUMP").is_some() {
            // debugging aid for replays (stderr only; not part of any observation)
            eprintln!("---- {stage} {name}: difference at {path}\n-- expected\n{}\n-- got\n{}", refclass::dump::dump(&want), refclass::dump::dump(&got));
        }
        if !neutralise(&mut want, &mut got, &path) {
            return;
        }
    }
}

fn check_onesided(name: &str, src: &[u8], side: Side, got: &[u8], seen: &mut Seen, out: &mut Vec<Issue>) {
    let Some(want) = parse_in(name, src, seen) else { return };
    let mut got = match refclass::parse(got) {
        Ok(s) => s,
        Err(e) => {
            out.push(issue("invalid-output", format!("onesided-class.{}", refclass::validate::prefix(&e.what)), format!("{name:?}: output class does not parse: {} at {}", e.what, e.offset)));
            return;
        }
    };
    // the source must not carry a mark of its own (the generator never makes one)
    let mut want_clean = want.clone();
    if !take_side_marks(&mut want_clean.annotations).is_empty() {
        return;
    }
    let marks = take_side_marks(&mut got.annotations);
    judge_marks(&marks, Some(side), "onesided-class", &format!("class {name:?}"), out);
    diff_with_known("onesided-class", name, &want, &got, seen, out);
}

/// interface marks: `@EnvironmentInterfaces({@EnvironmentInterface(value=SIDE, itf=X.class), ...})` or single
/// `@EnvironmentInterface` annotations, in either annotation list. Returns (itf descriptor, side) pairs and removes them.
fn take_itf_marks(a: &mut Annotations, malformed: &mut Vec<String>) -> Vec<(Vec<u8>, Side)> {
    fn one(x: &Annotation, malformed: &mut Vec<String>) -> Option<(Vec<u8>, Side)> {
        let mut side = None;
        let mut itf = None;
        for p in &x.pairs {
            match p.name.as_bytes() {
                b"value" => side = side_of_value(&p.value),
                b"itf" => {
                    if let ElementValue::Class(c) = &p.value {
                        itf = Some(c.as_bytes().to_vec());
                    }
                }
                _ => {}
            }
        }
        match (itf, side) {
            (Some(i), Some(s)) if x.pairs.len() == 2 => Some((i, s)),
            _ => {
                malformed.push(format!("{x:?}"));
                None
            }
        }
    }
    let mut found = vec![];
    for list in [&mut a.visible, &mut a.invisible] {
        let mut i = 0;
        while i < list.len() {
            let t = list[i].type_desc.as_bytes();
            if t == ENV_ITFS {
                let x = list.remove(i);
                let ok = x.pairs.len() == 1 && x.pairs[0].name.as_bytes() == b"value";
                match x.pairs.first().map(|p| &p.value) {
                    Some(ElementValue::Array(items)) if ok => {
                        for it in items {
                            match it {
                                ElementValue::Annotation(inner) if inner.type_desc.as_bytes() == ENV_ITF => found.extend(one(inner, malformed)),
                                other => malformed.push(format!("{other:?}")),
                            }
                        }
                    }
                    _ => malformed.push(format!("{x:?}")),
                }
            } else if t == ENV_ITF {
                let x = list.remove(i);
                found.extend(one(&x, malformed));
            } else {
                i += 1;
            }
        }
    }
    found
}

type Key = (JStr, JStr);

/// the two orders are compatible iff a common supersequence keeping both exists, i.e. iff the shared keys occur in
/// the same relative order on both sides (keys are unique within a side)
pub fn compatible<K: PartialEq>(a: &[K], b: &[K]) -> bool {
    let sa: Vec<&K> = a.iter().filter(|k| b.contains(k)).collect();
    let sb: Vec<&K> = b.iter().filter(|k| a.contains(k)).collect();
    sa == sb
}

fn has_dup<K: PartialEq>(a: &[K]) -> bool {
    a.iter().enumerate().any(|(i, k)| a[..i].contains(k))
}

/// exactly-once union + order clause for one keyed list. Returns false when the list is unusable for the
/// member-wise comparison (missing/duplicate/extra keys).
fn check_keys<K: PartialEq + std::fmt::Debug>(path: &str, name: &str, a: &[K], b: &[K], r: &[K], order_clause: bool, seen: &mut Seen, out: &mut Vec<Issue>) -> bool {
    let mut ok = true;
    for k in a.iter().chain(b.iter().filter(|k| !a.contains(k))) {
        let n = r.iter().filter(|x| *x == k).count();
        if n == 0 {
            ok = false;
            let from = match (a.contains(k), b.contains(k)) {
                (true, true) => "both",
                (true, false) => "client",
                _ => "server",
            };
            out.push(issue("semantic-mismatch", format!("{path}.missing"), format!("{name:?}: {k:?} (on {from}) is missing from the merged class")));
        } else if n > 1 {
            ok = false;
            out.push(issue("semantic-mismatch", format!("{path}.duplicate"), format!("{name:?}: {k:?} occurs {n} times in the merged class")));
        }
    }
    for k in r {
        if !a.contains(k) && !b.contains(k) {
            ok = false;
            out.push(issue("semantic-mismatch", format!("{path}.extra"), format!("{name:?}: {k:?} is on neither side")));
        }
    }
    if !ok {
        return false;
    }
    let shared = a.iter().filter(|k| b.contains(k)).count();
    if compatible(a, b) {
        if a.len() + b.len() > shared * 2 || shared > 1 {
            seen.merged_compatible += 1;
        }
        let ra: Vec<&K> = r.iter().filter(|k| a.contains(k)).collect();
        let rb: Vec<&K> = r.iter().filter(|k| b.contains(k)).collect();
        let keeps_a = ra == a.iter().collect::<Vec<_>>();
        let keeps_b = rb == b.iter().collect::<Vec<_>>();
        if !order_clause {
            // the statement's order clause speaks of members (fields, methods); for interfaces it is only counted
            if !keeps_a || !keeps_b {
                seen.interface_order_not_kept += 1;
            }
        } else {
            if !keeps_a {
                out.push(issue("semantic-mismatch", format!("{path}.order.client"), format!("{name:?}: client order {a:?} and server order {b:?} are compatible, merged order {r:?} does not keep the client's")));
            }
            if !keeps_b {
                out.push(issue("semantic-mismatch", format!("{path}.order.server"), format!("{name:?}: client order {a:?} and server order {b:?} are compatible, merged order {r:?} does not keep the server's")));
            }
        }
    } else {
        seen.merged_incompatible += 1;
    }
    true
}

fn check_merged(name: &str, client: &[u8], server: &[u8], got: &[u8], seen: &mut Seen, out: &mut Vec<Issue>) {
    let (Some(c), Some(s)) = (parse_in(name, client, seen), parse_in(name, server, seen)) else { return };
    let mut got = match refclass::parse(got) {
        Ok(s) => s,
        Err(e) => {
            out.push(issue("invalid-output", format!("merged-class.{}", refclass::validate::prefix(&e.what)), format!("{name:?}: output class does not parse: {} at {}", e.what, e.offset)));
            return;
        }
    };
    let fkeys = |x: &Sem| -> Vec<Key> { x.fields.iter().map(|f| (f.name.clone(), f.desc.clone())).collect() };
    let mkeys = |x: &Sem| -> Vec<Key> { x.methods.iter().map(|m| (m.name.clone(), m.desc.clone())).collect() };
    let (cf, sf, cm, sm) = (fkeys(&c), fkeys(&s), mkeys(&c), mkeys(&s));
    if has_dup(&cf) || has_dup(&sf) || has_dup(&cm) || has_dup(&sm) || has_dup(&c.interfaces) || has_dup(&s.interfaces) {
        // "exactly once" is undefined for inputs that repeat a key; the generator never builds such a class
        seen.input_class_unparsable += 1;
        return;
    }

    // ---- interfaces
    let itf_ok = check_keys("merged-class.interface", name, &c.interfaces, &s.interfaces, &got.interfaces, false, seen, out);
    let mut malformed = vec![];
    let mut marks = take_itf_marks(&mut got.annotations, &mut malformed);
    for m in &malformed {
        out.push(issue("semantic-mismatch", "merged-class.interface.mark.malformed", format!("{name:?}: {m}")));
    }
    if itf_ok {
        for i in &got.interfaces {
            let want = match (c.interfaces.contains(i), s.interfaces.contains(i)) {
                (true, false) => Some(Side::Client),
                (false, true) => Some(Side::Server),
                _ => None,
            };
            let mut desc = vec![b'L'];
            desc.extend_from_slice(i.as_bytes());
            desc.push(b';');
            let mine: Vec<Side> = marks.iter().filter(|(d, _)| *d == desc).map(|x| x.1).collect();
            marks.retain(|(d, _)| *d != desc);
            match want {
                None => {
                    if !mine.is_empty() {
                        out.push(issue("semantic-mismatch", "merged-class.interface.mark.unexpected", format!("{name:?}: interface {i} is on both sides but marked {mine:?}")));
                    }
                }
                Some(side) => {
                    seen.merged_itf_onesided += 1;
                    if mine.is_empty() {
                        out.push(issue("semantic-mismatch", "merged-class.interface.mark.missing", format!("{name:?}: interface {i} is on the {} side only but not marked", side.word())));
                    } else if mine.len() > 1 {
                        out.push(issue("semantic-mismatch", "merged-class.interface.mark.duplicate", format!("{name:?}: interface {i} is marked {} times", mine.len())));
                    } else if mine[0] != side {
                        out.push(issue("semantic-mismatch", "merged-class.interface.mark.wrong-side", format!("{name:?}: interface {i} is on the {} side only but marked {}", side.word(), mine[0].word())));
                    }
                }
            }
        }
        for (d, side) in &marks {
            out.push(issue("semantic-mismatch", "merged-class.interface.mark.unknown-interface", format!("{name:?}: mark for {:?} ({}) names no interface of the merged class", String::from_utf8_lossy(d), side.word())));
        }
    }

    // ---- fields and methods: exactly once, order, marks, bodies
    let f_ok = check_keys("merged-class.field", name, &cf, &sf, &fkeys(&got), true, seen, out);
    let m_ok = check_keys("merged-class.method", name, &cm, &sm, &mkeys(&got), true, seen, out);

    // expected class: class-level facts are NOT constrained by the property -> taken from the result itself;
    // members: the source member of the side it came from (shared: the client's, see assumptions)
    let mut want = got.clone();
    if f_ok {
        want.fields.clear();
        for (i, f) in got.fields.iter_mut().enumerate() {
            let k = (f.name.clone(), f.desc.clone());
            let (ic, is) = (cf.iter().position(|x| *x == k), sf.iter().position(|x| *x == k));
            let marks = take_side_marks(&mut f.annotations);
            let what = format!("field {}:{} of {name:?}", k.0, k.1);
            let (src, side) = match (ic, is) {
                (Some(a), Some(b)) => {
                    if c.fields[a] != s.fields[b] {
                        seen.merged_member_shared_differs += 1;
                    }
                    (&c.fields[a], None)
                }
                (Some(a), None) => (&c.fields[a], Some(Side::Client)),
                (None, Some(b)) => (&s.fields[b], Some(Side::Server)),
                (None, None) => unreachable!(),
            };
            if side.is_some() {
                seen.merged_member_onesided += 1;
            }
            judge_marks(&marks, side, &format!("merged-class.field[{i}]"), &what, out);
            want.fields.push(src.clone());
        }
    }
    if m_ok {
        want.methods.clear();
        for (i, m) in got.methods.iter_mut().enumerate() {
            let k = (m.name.clone(), m.desc.clone());
            let (ic, is) = (cm.iter().position(|x| *x == k), sm.iter().position(|x| *x == k));
            let marks = take_side_marks(&mut m.annotations);
            let what = format!("method {}{} of {name:?}", k.0, k.1);
            let (src, side) = match (ic, is) {
                (Some(a), Some(b)) => {
                    if c.methods[a] != s.methods[b] {
                        seen.merged_member_shared_differs += 1;
                    }
                    (&c.methods[a], None)
                }
                (Some(a), None) => (&c.methods[a], Some(Side::Client)),
                (None, Some(b)) => (&s.methods[b], Some(Side::Server)),
                (None, None) => unreachable!(),
            };
            if side.is_some() {
                seen.merged_member_onesided += 1;
            }
            judge_marks(&marks, side, &format!("merged-class.method[{i}]"), &what, out);
            want.methods.push(src.clone());
        }
    }
    diff_with_known("merged-class", name, &want, &got, seen, out);

    // class-level facts other than members/interfaces: counted, never flagged (outside the property)
    let strip = |x: &Sem| {
        let mut y = x.clone();
        y.fields.clear();
        y.methods.clear();
        y.interfaces.clear();
        y
    };
    let mut got_cl = strip(&got);
    take_side_marks(&mut got_cl.annotations);
    if let Some(p) = strip(&c).diff(&got_cl) {
        seen.classlevel_differs_from_client += 1;
        if seen.classlevel_note.is_none() {
            seen.classlevel_note = Some(format!("{name:?}: class-level {p} differs from the client's"));
        }
    }
}
