//! C04 - diff application is exact; diff . apply = id; through the textual .tinydiff form, with delivery
//! faults on the diff history (drop, duplicate, reorder, wrong base) and media faults on the diff text.

use crate::bridge::{from_quill, from_quill_diff, to_quill, to_quill_diff, Ns};
use crate::c03::shrink_mapset;
use crate::engine::*;
use crate::refdiff::*;
use crate::refmap::*;
use crate::rng::{Digest, Rng};
use crate::simdir::SimDir;
use crate::simio::*;
use quill::tree::mappings::Mappings;
use quill::tree::mappings_diff::MappingsDiff;
use serde::{Deserialize, Serialize};
use serde_json::json;

pub struct C04;

#[derive(Clone, Serialize, Deserialize)]
pub struct Plan {
    /// the edit history S0 -> S1 -> ... ; diff i (1-based) leads from S[i-1] to S[i]
    pub states: Vec<MapSet>,
    /// state the delivered diffs are applied to (0 unless "wrong base")
    pub start: usize,
    /// delivered diff numbers in delivery order (fault-free: 1..=k)
    pub delivery: Vec<usize>,
    /// (diff number, perturbation seed): the delivered text of that diff is perturbed (possibly inconsistent)
    pub perturb: Vec<(usize, u64)>,
    /// drawn section order / trailing-field style of the texts (0 = canonical)
    pub text_style: u64,
    /// medium the first delivered diff text is read through
    pub read_io: IoPlan,
    /// read the texts through real files (`read_file`) instead of the reader hook
    pub via_file: bool,
    /// non-zero: the canonical text of the first diff is also read with ONE line indented one tab too deep (which line
    /// is drawn from this seed). Such a text is not well-formed, so a refusal is fine; but an `Ok` must still carry
    /// everything the other lines say (never a silently shortened diff: missed seeded change C04-12)
    #[serde(default)]
    pub over_indent: u64,
    /// deliver the diffs as in-memory values (what `MappingsDiff::diff` produced, or a perturbation of it) instead of text;
    /// only here does a no-op edit `Edit(a,a)` keep its stated old value
    #[serde(default)]
    pub in_memory: bool,
}

type Q = Mappings<2, Ns>;

fn q_of(m: &MapSet) -> Q {
    to_quill::<2>(m, None).expect("model value admissible for quill")
}

fn diff_text(p: &Plan, i: usize) -> (DiffSet, Vec<u8>) {
    let mut d = ref_diff(&p.states[i - 1], &p.states[i]).expect("generated states are diffable");
    for (j, seed) in &p.perturb {
        if *j == i {
            d = perturb(&mut Rng::new(*seed), &d);
        }
    }
    let text = if p.text_style == 0 { write_tinydiff(&d, None) } else { write_tinydiff(&d, Some(&mut Rng::new(p.text_style ^ i as u64))) };
    (d, text.into_bytes())
}

/// A diff has no field for a parameter's source name (an added parameter has none), so histories are drawn over
/// sets whose parameters carry no source name.
fn strip_param_src(m: &mut MapSet) {
    for c in m.classes.values_mut() {
        for me in c.methods.values_mut() {
            for p in me.params.values_mut() {
                p.names[0] = None;
            }
        }
    }
}

impl Engine for C04 {
    type Plan = Plan;
    fn id(&self) -> &'static str {
        "C04"
    }
    fn runs(&self, tier: Tier) -> u64 {
        match tier {
            Tier::Quick => 80_000,
            Tier::Thorough => 2_000_000,
        }
    }
    fn gen(&self, rng: &mut Rng, _tier: Tier, _run: u64) -> Plan {
        let mut w = rng.split("workload");
        let mut s = rng.split("schedule");
        let mut f = rng.split("faults");
        let size = w.below(10);
        let cfg = GenCfg {
            nns: 2,
            max_classes: match size {
                0 => 0,
                1..=6 => 3,
                _ => 8,
            },
            max_members: 3,
            unicode: w.chance(40),
            comments: w.chance(70),
            missing: false,
            inner: w.chance(50),
            enigma: false,
            big: false,
        };
        let mut s0 = gen_mapset(&mut w, &cfg);
        strip_param_src(&mut s0);
        let k = w.range(1, 4) as usize;
        let mut states = vec![s0];
        for _ in 0..k {
            let prev = states.last().unwrap();
            let next = match w.below(10) {
                0 => prev.clone(),                                   // identical: the empty diff
                1 => gen_mapset(&mut w, &cfg),                        // (almost) no shared keys
                _ => {
                    let intensity = *w.pick(&[30u32, 60, 100]);
                    evolve(&mut w, prev, &cfg, intensity)
                }
            };
            // both sets of a pair must be over the same namespaces
            let mut next = next;
            next.ns = states[0].ns.clone();
            strip_param_src(&mut next);
            states.push(next);
        }
        let mut p = Plan { states, start: 0, delivery: (1..=k).collect(), perturb: vec![], text_style: if w.chance(50) { 0 } else { w.next() | 1 }, read_io: IoPlan::plain(), via_file: s.chance(10), in_memory: false, over_indent: 0 };
        {
            let mut oi = rng.split("over-indent");
            if oi.chance(12) {
                p.over_indent = oi.next() | 1;
            }
        }
        if s.chance(25) {
            p.in_memory = true;
            p.via_file = false;
        }
        if s.chance(60) && !p.via_file && !p.in_memory {
            p.read_io = IoPlan::gen_legal(&mut s);
        }
        // faults: ~45 % of runs fault-free
        if f.chance(55) {
            match f.below(7) {
                0 => {
                    // drop a diff
                    let i = f.usize(p.delivery.len());
                    p.delivery.remove(i);
                }
                1 => {
                    // deliver one twice
                    let i = f.usize(p.delivery.len());
                    let d = p.delivery[i];
                    let at = f.usize(p.delivery.len() + 1).max(i + 1);
                    p.delivery.insert(at, d);
                }
                2 => {
                    // swap two
                    if p.delivery.len() >= 2 {
                        let i = f.usize(p.delivery.len() - 1);
                        p.delivery.swap(i, i + 1);
                    } else {
                        p.start = k; // apply to the wrong base instead
                    }
                }
                3 => p.start = f.range(1, k as u64) as usize, // wrong base
                4 | 5 => {
                    // an inconsistent diff text
                    let i = f.range(1, k as u64) as usize;
                    p.perturb.push((i, f.next()));
                }
                _ if p.in_memory => p.start = f.range(1, k as u64) as usize,
                _ => {
                    // media fault on the first delivered text
                    p.via_file = false;
                    let len = p.delivery.first().map(|i| diff_text(&p, *i).1.len()).unwrap_or(1) as u64;
                    let fault = match f.below(5) {
                        0 | 1 => Fault::Eof { at: if f.chance(12) { 0 } else { f.below(len + 1) } },
                        2 => Fault::Flip { off: f.below(len.max(1)), bit: f.below(8) as u8 },
                        3 => Fault::Eio { at_call: f.below(4) as u32, sticky: f.chance(50) },
                        _ => Fault::EioAtOffset { off: f.below(len + 1) },
                    };
                    p.read_io.faults.push(fault);
                }
            }
        }
        // nameless mode: some nodes lose their target-namespace name in some states (a node that only holds its members).
        // The diff model cannot say "present without a name", so `diff` may refuse such a pair - but whatever it
        // returns must still apply to A and give B (missed seeded change C04-4)
        if w.chance(12) {
            for st in p.states.iter_mut() {
                if !w.chance(60) {
                    continue;
                }
                for c in st.classes.values_mut() {
                    if w.chance(25) {
                        c.names[0] = None;
                    }
                    for m in c.fields.values_mut().chain(c.methods.values_mut()) {
                        if w.chance(15) {
                            m.names[0] = None;
                        }
                    }
                }
            }
        }
        p
    }

    fn exec(&self, p: &Plan, st: &mut RunStats) -> Vec<Violation> {
        let mut out = vec![];
        let mut obs = Digest::new();
        let k = p.states.len() - 1;
        let mut sh = Digest::new();
        for s in &p.states {
            sh.u64(s.shape());
        }
        sh.u64(p.delivery.len() as u64);
        st.shape = sh.0;

        // ---------------- nameless pairs: only the law apply(diff(A,B),A) == B, and only when diff does not refuse
        let nameless = |s: &MapSet| s.classes.values().any(|c| c.names.first().is_some_and(|n| n.is_none()) || c.fields.values().chain(c.methods.values()).any(|m| m.names.first().is_some_and(|n| n.is_none())));
        if p.states.iter().any(nameless) {
            st.tier("T0");
            st.probe("nameless_pair");
            for i in 1..=k {
                let (a, b) = (&p.states[i - 1], &p.states[i]);
                match no_panic(|| MappingsDiff::diff(&q_of(a), &q_of(b))) {
                    Err(pm) => out.push(Violation::new("T0", "panic", format!("diff:{}", panic_path(&pm)), pm)),
                    Ok(Err(_)) => st.probe("nameless_pair.diff_refused"),
                    Ok(Ok(d)) => match no_panic(|| d.apply_to::<2, Ns, Ns>(q_of(a), &a.ns[1])) {
                        Err(pm) => out.push(Violation::new("T0", "panic", format!("apply:{}", panic_path(&pm)), pm)),
                        Ok(Err(_)) => st.probe("nameless_pair.apply_refused"),
                        Ok(Ok(r)) => {
                            st.probe("nameless_pair.applied");
                            let r = from_quill(&r).expect("projects");
                            if let Some((path, det)) = b.diff_path(&r) {
                                out.push(Violation::new("T0", "semantic-mismatch", format!("apply(diff(A,B),A).{path}"), det));
                            }
                        }
                    },
                }
            }
            return out;
        }

        // ---------------- T0: in-memory diff and apply for every step of the history
        st.tier("T0");
        for i in 1..=k {
            let (a, b) = (&p.states[i - 1], &p.states[i]);
            let want = ref_diff(a, b).expect("generated states are diffable");
            // the reference apply must itself invert the reference diff (guards the oracle)
            assert_eq!(ref_apply(&want, a).as_ref(), Ok(b), "harness: ref_apply(ref_diff(a,b),a) != b");
            match no_panic(|| MappingsDiff::diff(&q_of(a), &q_of(b))) {
                Err(pm) => out.push(Violation::new("T0", "panic", format!("diff:{}", panic_path(&pm)), pm)),
                Ok(Err(e)) => out.push(Violation::new("T0", "refused-wellformed", "diff", format!("{e:#}"))),
                Ok(Ok(d)) => {
                    match from_quill_diff(&d) {
                        Ok(got) => {
                            if let Some((path, det)) = want.diff_path(&got) {
                                out.push(Violation::new("T0", "semantic-mismatch", format!("diff.{path}"), det));
                            }
                        }
                        Err(e) => out.push(Violation::new("T0", "semantic-mismatch", "diff.info", format!("{e:#}"))),
                    }
                    match no_panic(|| d.apply_to::<2, Ns, Ns>(q_of(a), &a.ns[1])) {
                        Err(pm) => out.push(Violation::new("T0", "panic", format!("apply:{}", panic_path(&pm)), pm)),
                        Ok(Err(e)) => out.push(Violation::new("T0", "refused-wellformed", "apply(diff(A,B),A)", format!("{e:#}"))),
                        Ok(Ok(r)) => {
                            let r = from_quill(&r).expect("projects");
                            if let Some((path, det)) = b.diff_path(&r) {
                                out.push(Violation::new("T0", "semantic-mismatch", format!("apply(diff(A,B),A).{path}"), det));
                            }
                        }
                    }
                }
            }
        }

        // ---------------- the primitive every node-level action rests on: a refused `Names::change_name` (stated old
        // value does not match) leaves the names as they were, so that the correct change still goes through afterwards
        // (missed seeded change C04-14: the new value stored before the old one is compared)
        {
            use quill::tree::names::Namespace;
            let mut q: Q = q_of(&p.states[0]);
            if let (Ok(ns), Some(c)) = (Namespace::<2>::new(1), q.classes.values_mut().next()) {
                let before = c.info.names[ns].clone();
                let wrong: duke::tree::class::ObjClassName = java_string::JavaString::from("verif/NotTheOldName".to_string()).try_into().expect("name");
                let new: duke::tree::class::ObjClassName = java_string::JavaString::from("verif/New".to_string()).try_into().expect("name");
                if before.as_ref() != Some(&wrong) {
                    st.probe("change_name_refusal");
                    match no_panic(|| c.info.names.change_name(ns, Some(&wrong), Some(&new))) {
                        Err(pm) => out.push(Violation::new("T0", "panic", format!("change_name:{}", panic_path(&pm)), pm)),
                        Ok(Ok(_)) => out.push(Violation::new("T0", "accepted-inconsistent-diff", "change_name", "an edit whose stated old name does not match was accepted")),
                        Ok(Err(_)) => {
                            if c.info.names[ns] != before {
                                out.push(Violation::new("T0", "residue-after-heal", "change_name.refused", format!("the refused edit changed the name anyway: {:?} -> {:?}", before, c.info.names[ns])));
                            } else if let Ok(Err(e)) = no_panic(|| c.info.names.change_name(ns, before.as_ref(), Some(&new))) {
                                out.push(Violation::new("T0", "residue-after-heal", "change_name.after-refusal", format!("the correct edit after a refused one fails: {e:#}")));
                            }
                        }
                    }
                }
            }
        }

        // ---------------- a diff that has no class entry at all still carries its set-level comment action (the textual form
        // cannot express it, the in-memory form can): apply(diff(A,B),A) == B for two class-less sets that differ in the
        // comment of the set, and a mismatching old comment is refused (missed seeded change C04-17: "empty" diffs skipped)
        if p.over_indent % 4 == 1 || p.text_style % 16 == 5 {
            use quill::tree::mappings::JavadocMapping;
            let empty = MapSet { ns: p.states[0].ns.clone(), doc: None, classes: Default::default() };
            let ns1 = empty.ns[1].clone();
            let (mut a, mut b): (Q, Q) = (q_of(&empty), q_of(&empty));
            a.javadoc = if p.text_style % 2 == 0 { None } else { Some(JavadocMapping("old words".into())) };
            b.javadoc = Some(JavadocMapping("new words".into()));
            st.probe("set_level_comment_diff");
            match no_panic(|| MappingsDiff::diff(&a, &b)) {
                Ok(Ok(d)) => {
                    let target = a.clone();
                    match no_panic(|| d.apply_to::<2, Ns, Ns>(target, &ns1)) {
                        Ok(Ok(r)) => {
                            if r.javadoc != b.javadoc {
                                out.push(Violation::new("T0", "semantic-mismatch", "apply(diff(A,B),A).set-comment", format!("{:?} instead of {:?}", r.javadoc, b.javadoc)));
                            }
                        }
                        Ok(Err(e)) => out.push(Violation::new("T0", "refused-wellformed", "apply(diff(A,B),A).set-comment", format!("{e:#}"))),
                        Err(pm) => out.push(Violation::new("T0", "panic", format!("apply:{}", panic_path(&pm)), pm)),
                    }
                    // the same diff on a target whose comment is something else: the stated old value does not match
                    let mut other: Q = q_of(&empty);
                    other.javadoc = Some(JavadocMapping("something else".into()));
                    if let Ok(Ok(r)) = no_panic(|| d.apply_to::<2, Ns, Ns>(other, &ns1)) {
                        out.push(Violation::new("T0", "accepted-inconsistent-diff", "apply.set-comment", format!("a set-level comment change was applied to a set whose comment is something else (result {:?})", r.javadoc)));
                    }
                }
                Ok(Err(e)) => out.push(Violation::new("T0", "refused-wellformed", "diff(A,B).set-comment", format!("{e:#}"))),
                Err(pm) => out.push(Violation::new("T0", "panic", format!("diff:{}", panic_path(&pm)), pm)),
            }
        }

        // ---------------- one line of the first diff's text one tab too deep
        if p.over_indent != 0 && k >= 1 {
            let d1 = ref_diff(&p.states[0], &p.states[1]).expect("generated states are diffable");
            let text = write_tinydiff(&d1, None).into_bytes();
            let lines: Vec<&[u8]> = text.split_inclusive(|b| *b == b'\n').collect();
            let depth = |l: &[u8]| l.iter().take_while(|b| **b == b'\t').count();
            if lines.len() >= 2 {
                let start = 1 + (p.over_indent % (lines.len() as u64 - 1)) as usize;
                let at = (start..lines.len()).chain(1..start).find(|&i| i == 1 || depth(lines[i - 1]) < depth(lines[i])).unwrap_or(1);
                let d_at = depth(lines[at]);
                // one more tab is too deep only for a first child (the line before is its parent) and for the first line
                // after the header; anywhere else it would re-parent the line, which is a different, well-formed text
                if at == 1 || depth(lines[at - 1]) < d_at {
                    let mut damaged = vec![];
                    let mut rest = vec![];
                    let mut skipping = false;
                    for (i, l) in lines.iter().enumerate() {
                        if i == at {
                            damaged.push(b'\t');
                            damaged.extend_from_slice(l);
                            skipping = true;
                            continue;
                        }
                        damaged.extend_from_slice(l);
                        if skipping && depth(l) > d_at {
                            continue; // the subtree of the odd line
                        }
                        skipping = false;
                        rest.extend_from_slice(l);
                    }
                    st.probe("over_indented_line");
                    st.tier("T2");
                    st.nontrivial = true;
                    st.sched.u64(0x1d7 ^ at as u64);
                    match no_panic(|| quill::tiny_v2_diff::verif_read(&mut &damaged[..])) {
                        Err(pm) => out.push(Violation::new("T2", "panic", format!("read-diff:{}", panic_path(&pm)), pm)),
                        Ok(Err(_)) => st.probe("over_indented_line.refused"),
                        Ok(Ok(real)) => {
                            if let (Ok(got), Ok(want)) = (from_quill_diff(&real), read_tinydiff(&rest)) {
                                if let Some(m) = want.missing_in(&got) {
                                    out.push(Violation::new("T2", "reader-ok-with-lost-entries", "read-diff.over-indented-line", format!("line {} is one tab too deep; the read returned Ok without what the OTHER lines say: {m}", at + 1)));
                                }
                            }
                        }
                    }
                }
            }
        }

        // ---------------- the delivered history, through the textual form
        let mut dir = if p.via_file { Some(SimDir::new("c04")) } else { None };
        let mut cur_ref = p.states[p.start].clone();
        let mut cur_real: Q = q_of(&cur_ref);
        let history_fault = p.start != 0 || p.delivery != (1..=k).collect::<Vec<_>>() || !p.perturb.is_empty();
        if history_fault {
            st.fired(&["history"]);
            if p.start != 0 {
                st.probe("history.wrong_base");
            }
            if !p.perturb.is_empty() {
                st.probe("history.inconsistent_text");
            }
        }
        for (step, &i) in p.delivery.iter().enumerate() {
            let (d_model, text) = diff_text(p, i);
            if p.in_memory {
                st.probe("delivered_in_memory");
                let perturbed = p.perturb.iter().any(|(j, _)| *j == i);
                let real_d = if perturbed {
                    to_quill_diff(&d_model).expect("model diff admissible for quill")
                } else {
                    match no_panic(|| MappingsDiff::diff(&q_of(&p.states[i - 1]), &q_of(&p.states[i]))) {
                        Ok(Ok(d)) => d,
                        _ => break, // reported in the T0 part
                    }
                };
                let want = ref_apply(&d_model, &cur_ref); // not normalised: Edit(a,a) states that the target holds `a`
                let target = cur_real.clone();
                let ns1 = cur_ref.ns[1].clone();
                match no_panic(|| real_d.apply_to::<2, Ns, Ns>(target, &ns1)) {
                    Err(pm) => {
                        out.push(Violation::new("T0", "panic", format!("apply:{}", panic_path(&pm)), pm));
                        break;
                    }
                    Ok(Err(e)) => match want {
                        Err(_) => {
                            st.probe("refused_by_both");
                            break;
                        }
                        Ok(_) => {
                            out.push(Violation::new("T0", "refused-wellformed", format!("chain[{step}].apply-in-memory"), format!("reference applies diff {i} cleanly, real refuses: {e:#}")));
                            break;
                        }
                    },
                    Ok(Ok(next)) => {
                        let got = from_quill(&next).expect("projects");
                        match want {
                            Err(why) => {
                                out.push(Violation::new("T0", "accepted-inconsistent-diff", format!("chain[{step}].apply-in-memory"), format!("the diff does not fit the target ({why}) but apply_to returned Ok")));
                                break;
                            }
                            Ok(w) => {
                                if let Some((path, det)) = w.diff_path(&got) {
                                    out.push(Violation::new("T0", "semantic-mismatch", format!("chain[{step}].apply-in-memory.{path}"), det));
                                    break;
                                }
                                if history_fault {
                                    st.probe("applied_despite_history_fault");
                                }
                                cur_ref = w;
                                cur_real = next;
                            }
                        }
                    }
                }
                continue;
            }
            // --- read the text
            let first = step == 0;
            let io = if first { p.read_io.clone() } else { IoPlan { faults: vec![], seed: p.read_io.seed ^ step as u64, ..p.read_io.clone() } };
            let legal = io.legal_only();
            let tier = if io.is_plain() { "T0" } else if legal { "T1" } else { "T2" };
            if !io.is_plain() {
                st.tier(if legal { "T1" } else { "T2" });
            }
            let mut delivered = text.clone();
            let read_res = if let Some(dir) = dir.as_mut() {
                // one path for the whole history (the file is replaced between the steps): a reader that remembers what it
                // read under a path answers with the old diff (missed seeded change C04-7)
                let name = if p.text_style % 2 == 0 { format!("d{step}.tinydiff") } else { "current.tinydiff".to_string() };
                dir.create(&name, &text);
                st.events += 3;
                st.probe("read_via_file");
                let path = dir.join(&name);
                no_panic(|| quill::tiny_v2_diff::read_file(&path))
            } else {
                let mut src = SimReader::new(&text, &io);
                let r = no_panic(|| quill::tiny_v2_diff::verif_read(&mut src));
                st.io(&src.stats, src.log);
                delivered = src.delivered().to_vec();
                if src.fuel_exhausted {
                    out.push(Violation::new(tier, "runaway", "read-diff", "fuel exhausted"));
                }
                r
            };
            let real_d = match read_res {
                Err(pm) => {
                    out.push(Violation::new(tier, "panic", format!("read-diff:{}", panic_path(&pm)), pm));
                    break;
                }
                Ok(Err(e)) => {
                    obs.u64(10);
                    if legal {
                        out.push(Violation::new(tier, if tier == "T0" { "refused-wellformed" } else { "schedule-dependence" }, "read-diff", format!("{e:#}")));
                    } else {
                        st.probe("read_err_under_fault");
                    }
                    break;
                }
                Ok(Ok(d)) => d,
            };
            let d_seen = if legal {
                match from_quill_diff(&real_d) {
                    Ok(got) => {
                        if let Some((path, det)) = d_model.diff_path(&got) {
                            out.push(Violation::new(tier, if tier == "T1" { "schedule-dependence" } else { "semantic-mismatch" }, format!("read-diff.{path}"), det));
                        }
                    }
                    Err(e) => out.push(Violation::new(tier, "semantic-mismatch", "read-diff.info", format!("{e:#}"))),
                }
                // the text cannot tell Edit(a,a) from "no action": what was delivered is the normal form
                d_model.norm()
            } else {
                // damaged medium: Ok is acceptable only as the reference reading of the delivered bytes
                match read_tinydiff(&delivered) {
                    Ok(r) => {
                        st.probe("read_ok_on_damaged_medium_agrees");
                        match from_quill_diff(&real_d) {
                            Ok(got) => {
                                if let Some((path, det)) = r.diff_path(&got) {
                                    out.push(Violation::new("T2", "reader-ok-with-wrong-data", format!("read-diff.{path}"), det));
                                }
                            }
                            Err(e) => out.push(Violation::new("T2", "reader-ok-with-wrong-data", "read-diff.info", format!("{e:#}"))),
                        }
                        r
                    }
                    Err(e) if e.starts_with(UNDECODABLE) => {
                        out.push(Violation::new("T2", "reader-ok-on-undecodable-input", "read-diff", format!("the delivered bytes are not UTF-8 text ({e}) but the diff reader returned Ok")));
                        break;
                    }
                    Err(_) if delivered.is_empty() => {
                        // nothing at all was delivered: every .tinydiff starts with its header line, so a file cut to zero
                        // bytes is not "a diff without changes" (missed seeded changes C04-16 / C05-16)
                        out.push(Violation::new("T2", "reader-ok-on-empty-input", "read-diff", "the medium delivered no byte, the diff reader returned Ok".to_string()));
                        break;
                    }
                    Err(_) => {
                        st.probe("lenient_accept");
                        break; // no reference reading to continue from
                    }
                }
            };
            // --- apply it
            let want = ref_apply(&d_seen, &cur_ref);
            let target = cur_real.clone();
            let ns1 = cur_ref.ns[1].clone();
            match no_panic(|| real_d.apply_to::<2, Ns, Ns>(target, &ns1)) {
                Err(pm) => {
                    out.push(Violation::new("T0", "panic", format!("apply:{}", panic_path(&pm)), pm));
                    break;
                }
                Ok(Err(e)) => {
                    obs.u64(20);
                    match want {
                        Err(_) => {
                            st.probe("refused_by_both");
                            break;
                        }
                        Ok(_) => {
                            out.push(Violation::new("T0", "refused-wellformed", format!("chain[{step}].apply"), format!("reference applies diff {i} cleanly, real refuses: {e:#}")));
                            break;
                        }
                    }
                }
                Ok(Ok(next)) => {
                    obs.u64(21);
                    let got = from_quill(&next).expect("projects");
                    match want {
                        Err(why) => {
                            out.push(Violation::new("T0", "accepted-inconsistent-diff", format!("chain[{step}].apply"), format!("the diff does not fit the target ({why}) but apply_to returned Ok")));
                            break;
                        }
                        Ok(w) => {
                            if let Some((path, det)) = w.diff_path(&got) {
                                out.push(Violation::new("T0", "semantic-mismatch", format!("chain[{step}].apply.{path}"), det));
                                break;
                            }
                            if history_fault {
                                st.probe("applied_despite_history_fault");
                            }
                            cur_ref = w;
                            cur_real = next;
                        }
                    }
                }
            }
        }
        if !history_fault && p.read_io.legal_only() && out.is_empty() {
            // fault-free chain ends in the last state
            if cur_ref != p.states[k] {
                out.push(Violation::new("T0", "semantic-mismatch", "chain.end", "fault-free chain does not end in the last state"));
            }
            st.probe("chain_complete");
        }
        let mut t = Digest::new();
        t.str(&write_tiny(&cur_ref, None));
        obs.u64(t.0);
        st.obs = obs;
        drop(dir);
        out
    }

    fn shrink(&self, p: &Plan) -> Vec<Plan> {
        let mut c = vec![];
        for io in shrink_io(&p.read_io) {
            let mut q = p.clone();
            q.read_io = io;
            c.push(q);
        }
        if p.via_file {
            let mut q = p.clone();
            q.via_file = false;
            c.push(q);
        }
        if p.in_memory {
            let mut q = p.clone();
            q.in_memory = false;
            c.push(q);
        }
        if p.text_style != 0 {
            let mut q = p.clone();
            q.text_style = 0;
            c.push(q);
        }
        // shorten the history from the end
        if p.states.len() > 2 {
            let k = p.states.len() - 1;
            let mut q = p.clone();
            q.states.pop();
            q.delivery.retain(|i| *i < k);
            q.perturb.retain(|(i, _)| *i < k);
            q.start = q.start.min(k - 1);
            if !q.delivery.is_empty() {
                c.push(q);
            }
            // or from the front
            let mut q = p.clone();
            q.states.remove(0);
            q.delivery = q.delivery.iter().filter(|i| **i > 1).map(|i| i - 1).collect();
            q.perturb = q.perturb.iter().filter(|(i, _)| *i > 1).map(|(i, s)| (i - 1, *s)).collect();
            q.start = q.start.saturating_sub(1);
            if !q.delivery.is_empty() {
                c.push(q);
            }
        }
        for i in 0..p.delivery.len() {
            if p.delivery.len() > 1 {
                let mut q = p.clone();
                q.delivery.remove(i);
                c.push(q);
            }
        }
        for i in 0..p.perturb.len() {
            let mut q = p.clone();
            q.perturb.remove(i);
            c.push(q);
        }
        // shrink each state; keys removed from one state are removed from all (keeps the history coherent)
        for (si, s) in p.states.iter().enumerate() {
            for m in shrink_mapset(s) {
                let mut q = p.clone();
                q.states[si] = m;
                c.push(q);
            }
        }
        for k in p.states.iter().flat_map(|s| s.classes.keys()).collect::<std::collections::BTreeSet<_>>() {
            let mut q = p.clone();
            for s in &mut q.states {
                s.classes.remove(k);
            }
            c.push(q);
        }
        c
    }
    fn size(&self, p: &Plan) -> (u64, u64) {
        let faults = (p.start != 0) as u64 + p.perturb.len() as u64 + p.read_io.faults.len() as u64 + (p.delivery != (1..p.states.len()).collect::<Vec<_>>()) as u64;
        (p.states.iter().map(|s| s.count() as u64).sum::<u64>() + p.delivery.len() as u64, faults)
    }
    fn rule(&self) -> String {
        "one run = an edit history S0..Sk (k in 1..4; successor states are evolutions, identical copies or unrelated sets) whose diffs travel as .tinydiff text (canonical or drawn section order / trailing-field style) through a simulated reader or a real tmpfs file, delivered fault-free or with one history fault (drop, duplicate, swap, wrong base, perturbed = possibly inconsistent text) or one media fault; every delivered step is applied by the real code and by the reference model, which decides refusal or result. Non-trivial: a short read, EINTR, media fault or history fault occurred; distinct by (shape of all states + delivery length, event-log digest)".into()
    }
    fn assumptions(&self) -> Vec<String> {
        vec![
            "parameters carry no source name (a diff has no field for it)".into(),
            "two-namespace sets in which every entry has a name in the target namespace (a diff cannot express 'present without name'); no mapping-level comment; comments non-empty (the text form cannot tell an empty comment from none)".into(),
            "a removal is not required to verify the diffs listed below the removed node (the property says removals disappear with their subtree)".into(),
            "the .tinydiff writer is the harness' (the repository has none); the reader under test is quill's".into(),
        ]
    }
    fn real_and_stub(&self) -> serde_json::Value {
        json!({"real": ["quill::tree::mappings_diff::MappingsDiff::{diff, apply_to}", "quill::tiny_v2_diff::{read_file, read (via hook verif_read)}", "quill::lines", "std::fs::File for the via_file runs"], "stub": ["byte source (SimReader)", "tmpfs scratch directory (SimDir) for read_file", "diff delivery (the history fault plan)"], "reference": ["refdiff::{ref_diff, ref_apply, read_tinydiff, write_tinydiff}"]})
    }
    fn expected_probes(&self) -> Vec<&'static str> {
        vec!["delivered_in_memory", "refused_by_both", "applied_despite_history_fault", "chain_complete", "history.wrong_base", "history.inconsistent_text", "read_via_file", "lenient_accept", "read_ok_on_damaged_medium_agrees", "io.eintr"]
    }
}
