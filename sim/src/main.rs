//! Deterministic simulation harness for feather-build-rs. One binary, fronted by /verif/check.

mod bridge;
mod c02;
mod c01;
mod c03;
mod c04;
mod c05;
mod c07;
mod c12;
mod c16;
mod c13;
mod c17;
mod c14;
mod c14_gen;
mod c14_jar;
mod c15;
mod c19;
mod c20;
mod choice;
mod corpus;
mod engine;
mod proj;
mod reentrant;
mod refbridge;
mod refdiff;
mod refremap;
mod refmap;
mod refmerge;
mod refmvn;
mod refnest;
mod rng;
mod sandbox;
mod simdir;
mod simio;
mod simjar;

use engine::{Engine, Opts, Tier};

#[global_allocator]
static ALLOC: sandbox::LimitAlloc = sandbox::LimitAlloc;

// The two binary-crate modules a property anchors are compiled from /repo's working tree into the harness.
// They name these items through `crate::`.
#[allow(dead_code)]
pub struct Official;
#[allow(dead_code)]
pub struct Intermediary;
#[allow(dead_code)]
pub struct Named;
#[allow(dead_code, unused)]
mod download {
    #[path = "/repo/src/download/versions_manifest.rs"]
    pub mod versions_manifest;
}
#[allow(dead_code, unused, deprecated, clippy::all)]
#[path = "/repo/src/version_graph.rs"]
mod version_graph;
#[allow(dead_code, unused, deprecated, clippy::all)]
#[path = "/repo/src/specialized_methods/mod.rs"]
mod specialized_methods;

pub const DEFAULT_SEED: u64 = 20260929;

fn usage() -> ! {
    eprintln!("usage: sim <Cxx> [--tier quick|thorough] [--replay <file>] [--runs N] [--workers K] [--no-evidence]\n       sim digest <Cxx> [--runs N] [--workers K]   (prints the batch digest only; used by the determinism self-test)");
    std::process::exit(2)
}

struct Args {
    id: String,
    tier: Tier,
    replay: Option<String>,
    runs: Option<u64>,
    workers: usize,
    evidence: bool,
    /// set by `supervise` only: (run index, class, detail) of a run that killed the child process
    crash: Option<(u64, String, String)>,
}

fn seed() -> u64 {
    match std::env::var("VERIF_SEED") {
        Ok(s) if !s.trim().is_empty() => match s.trim().parse::<u64>() {
            Ok(v) => v,
            Err(_) => match s.trim().parse::<i64>() {
                Ok(v) => v as u64,
                Err(_) => {
                    eprintln!("harness error: VERIF_SEED={s:?} is not an integer");
                    std::process::exit(2)
                }
            },
        },
        _ => DEFAULT_SEED,
    }
}

fn drive<E: Engine>(e: &E, a: &Args, digest_only: bool) -> i32 {
    if let Some(r) = &a.replay {
        return engine::replay(e, r);
    }
    let o = Opts { tier: a.tier, seed: seed(), runs: a.runs, workers: a.workers, write_evidence: a.evidence && !digest_only };
    if let Some((run, class, detail)) = &a.crash {
        return engine::crash_report(e, &o, *run, class, detail);
    }
    println!("SEED {}", o.seed);
    let out = engine::run_engine(e, &o);
    if digest_only {
        println!("DIGEST {:016x}", out.digest);
    }
    out.exit
}

fn dispatch(a: &Args, digest_only: bool) -> i32 {
    match a.id.as_str() {
        "C02" => drive(&c02::C02, a, digest_only),
        "C01" => drive(&c01::C01, a, digest_only),
        "C03" => drive(&c03::C03, a, digest_only),
        "C04" => drive(&c04::C04, a, digest_only),
        "C05" => drive(&c05::C05, a, digest_only),
        "C07" => drive(&c07::C07, a, digest_only),
        "C12" => drive(&c12::C12, a, digest_only),
        "C16" => {
            if let Some(r) = &a.replay {
                return c16::replay(r);
            }
            c16::run(&c16::Args16 { tier: a.tier, seed: seed(), workers: a.workers, evidence: a.evidence, digest_only, max_units: a.runs.map(|n| n as usize) })
        }
        "C17" => drive(&c17::C17, a, digest_only),
        "C13" => drive(&c13::C13, a, digest_only),
        "C14" => drive(&c14::C14, a, digest_only),
        "C15" => drive(&c15::C15, a, digest_only),
        "C19" => drive(&c19::C19, a, digest_only),
        "C20" => drive(&c20::C20, a, digest_only),
        other => {
            eprintln!("harness error: no engine for {other}");
            2
        }
    }
}

fn main() {
    engine::install_panic_hook();
    let mut args = std::env::args();
    args.next();
    let mut peek: Vec<String> = args.collect();
    if peek.is_empty() {
        usage();
    }
    match peek[0].as_str() {
        "c16-child" => std::process::exit(c16::child_main(&peek[1..])),
        "c16-one" => std::process::exit(c16::one_main(&peek[1..])),
        _ => {}
    }
    let digest_only = peek[0] == "digest";
    if digest_only {
        peek.remove(0);
    }
    let mut a = parse_vec(peek.clone());
    // The engines call the code under test in this process; a stack overflow or an allocation abort there cannot be
    // caught. So the batch runs in a child of this process (C16 has its own sandbox), and if the child is killed the
    // batch is re-run single-threaded with a run trace to find the run, which is then reported as a violation.
    if a.id != "C16" && std::env::var("VERIF_CHILD").is_err() {
        std::process::exit(supervise(&mut a, &peek, digest_only));
    }
    // a panic outside a guarded call is a harness error (exit 2), never a verdict
    let code = std::panic::catch_unwind(|| dispatch(&a, digest_only)).unwrap_or(2);
    std::process::exit(code);
}

fn classify(stderr: &str, status: &std::process::ExitStatus) -> (String, String) {
    use std::os::unix::process::ExitStatusExt;
    if stderr.contains("overflowed its stack") {
        ("stack-overflow".into(), "the code under test overflowed the stack of the harness process".into())
    } else if let Some(l) = stderr.lines().find(|l| l.contains("memory allocation of")) {
        ("abort-alloc".into(), l.trim().to_string())
    } else {
        ("abort".into(), format!("the harness process died: signal {:?}, exit code {:?}", status.signal(), status.code()))
    }
}

fn supervise(a: &mut Args, argv: &[String], digest_only: bool) -> i32 {
    use std::process::{Command, Stdio};
    let exe = std::env::current_exe().expect("current_exe");
    let mut full: Vec<String> = vec![];
    if digest_only {
        full.push("digest".into());
    }
    full.extend(argv.iter().cloned());
    let status = Command::new(&exe).args(&full).env("VERIF_CHILD", "1").status().expect("spawn");
    if let Some(c) = status.code() {
        if c != 134 {
            return c;
        }
    }
    // the child was killed
    let shm = if std::path::Path::new("/dev/shm").is_dir() { std::path::PathBuf::from("/dev/shm") } else { std::env::temp_dir() };
    let trace = shm.join(format!("verif-trace-{}", std::process::id()));
    let errf = shm.join(format!("verif-trace-{}.err", std::process::id()));
    let _ = std::fs::write(&trace, u64::MAX.to_le_bytes());
    if let Some(r) = &a.replay {
        // a replayed plan that kills the process reproduces a process-died violation
        let st = Command::new(&exe).args(&full).env("VERIF_CHILD", "1").stdout(Stdio::null()).stderr(Stdio::from(std::fs::File::create(&errf).expect("err file"))).status().expect("spawn");
        let err = std::fs::read_to_string(&errf).unwrap_or_default();
        let _ = std::fs::remove_file(&errf);
        let _ = std::fs::remove_file(&trace);
        let (class, detail) = classify(&err, &st);
        eprintln!("  T? :: {class} :: process-died :: {detail}");
        println!("VIOLATION property={} replay={r}", a.id);
        return 1;
    }
    eprintln!("note: the code under test killed the harness process; re-running the batch single-threaded to find the run");
    let mut traced = full.clone();
    traced.push("--workers".into());
    traced.push("1".into());
    traced.push("--no-evidence".into());
    let st = Command::new(&exe)
        .args(&traced)
        .env("VERIF_CHILD", "1")
        .env("VERIF_TRACE", &trace)
        .stdout(Stdio::null())
        .stderr(Stdio::from(std::fs::File::create(&errf).expect("err file")))
        .status()
        .expect("spawn");
    let err = std::fs::read_to_string(&errf).unwrap_or_default();
    let run = std::fs::read(&trace).ok().filter(|b| b.len() >= 8).map(|b| u64::from_le_bytes(b[..8].try_into().unwrap()));
    let _ = std::fs::remove_file(&errf);
    let _ = std::fs::remove_file(&trace);
    if st.success() || st.code() == Some(1) || st.code() == Some(2) {
        eprintln!("harness error: the batch killed its process once but not when re-run single-threaded");
        return 2;
    }
    let Some(run) = run.filter(|r| *r != u64::MAX) else {
        eprintln!("harness error: the process died before its first run: {}", err.lines().last().unwrap_or(""));
        return 2;
    };
    let (class, detail) = classify(&err, &st);
    a.crash = Some((run, class, detail));
    println!("SEED {}", seed());
    dispatch(a, digest_only)
}

fn parse_vec(v: Vec<String>) -> Args {
    let mut it = v.into_iter();
    let id = it.next().unwrap_or_else(|| usage());
    let mut tier = match std::env::var("VERIF_TIER").as_deref() {
        Ok("thorough") => Tier::Thorough,
        _ => Tier::Quick,
    };
    let mut replay = None;
    let mut runs = None;
    let mut workers = std::thread::available_parallelism().map(|n| n.get()).unwrap_or(4).min(16);
    let mut evidence = true;
    while let Some(x) = it.next() {
        match x.as_str() {
            "--tier" => {
                tier = match it.next().as_deref() {
                    Some("quick") => Tier::Quick,
                    Some("thorough") => Tier::Thorough,
                    _ => usage(),
                }
            }
            "--replay" => replay = Some(it.next().unwrap_or_else(|| usage())),
            "--runs" => runs = Some(it.next().and_then(|v| v.parse().ok()).unwrap_or_else(|| usage())),
            "--workers" => workers = it.next().and_then(|v| v.parse().ok()).unwrap_or_else(|| usage()),
            "--no-evidence" => evidence = false,
            _ => usage(),
        }
    }
    Args { id, tier, replay, runs, workers, evidence, crash: None }
}

