//! Deterministic simulation harness for feather-build-rs. One binary, fronted by /verif/check.

mod bridge;
mod c02;
mod c01;
mod c03;
mod c04;
mod c05;
mod c07;
mod c12;
mod c16;
mod c13;
mod c17;
mod c14;
mod c14_gen;
mod c14_jar;
mod c15;
mod c19;
mod c20;
mod choice;
mod corpus;
mod engine;
mod proj;
mod refbridge;
mod refdiff;
mod refremap;
mod refmap;
mod refmerge;
mod refmvn;
mod refnest;
mod rng;
mod sandbox;
mod simdir;
mod simio;
mod simjar;

use engine::{Engine, Opts, Tier};

#[global_allocator]
static ALLOC: sandbox::LimitAlloc = sandbox::LimitAlloc;

// The two binary-crate modules a property anchors are compiled from /repo's working tree into the harness.
// They name these items through `crate::`.
#[allow(dead_code)]
pub struct Official;
#[allow(dead_code)]
pub struct Intermediary;
#[allow(dead_code)]
pub struct Named;
#[allow(dead_code, unused)]
mod download {
    #[path = "/repo/src/download/versions_manifest.rs"]
    pub mod versions_manifest;
}
#[allow(dead_code, unused, deprecated, clippy::all)]
#[path = "/repo/src/version_graph.rs"]
mod version_graph;
#[allow(dead_code, unused, deprecated, clippy::all)]
#[path = "/repo/src/specialized_methods/mod.rs"]
mod specialized_methods;

pub const DEFAULT_SEED: u64 = 20260929;

fn usage() -> ! {
    eprintln!("usage: sim <Cxx> [--tier quick|thorough] [--replay <file>] [--runs N] [--workers K] [--no-evidence]\n       sim digest <Cxx> [--runs N] [--workers K]   (prints the batch digest only; used by the determinism self-test)");
    std::process::exit(2)
}

struct Args {
    id: String,
    tier: Tier,
    replay: Option<String>,
    runs: Option<u64>,
    workers: usize,
    evidence: bool,
}

fn seed() -> u64 {
    match std::env::var("VERIF_SEED") {
        Ok(s) if !s.trim().is_empty() => match s.trim().parse::<u64>() {
            Ok(v) => v,
            Err(_) => match s.trim().parse::<i64>() {
                Ok(v) => v as u64,
                Err(_) => {
                    eprintln!("harness error: VERIF_SEED={s:?} is not an integer");
                    std::process::exit(2)
                }
            },
        },
        _ => DEFAULT_SEED,
    }
}

fn drive<E: Engine>(e: &E, a: &Args, digest_only: bool) -> i32 {
    if let Some(r) = &a.replay {
        return engine::replay(e, r);
    }
    let o = Opts { tier: a.tier, seed: seed(), runs: a.runs, workers: a.workers, write_evidence: a.evidence && !digest_only };
    println!("SEED {}", o.seed);
    let out = engine::run_engine(e, &o);
    if digest_only {
        println!("DIGEST {:016x}", out.digest);
    }
    out.exit
}

fn dispatch(a: &Args, digest_only: bool) -> i32 {
    match a.id.as_str() {
        "C02" => drive(&c02::C02, a, digest_only),
        "C01" => drive(&c01::C01, a, digest_only),
        "C03" => drive(&c03::C03, a, digest_only),
        "C04" => drive(&c04::C04, a, digest_only),
        "C05" => drive(&c05::C05, a, digest_only),
        "C07" => drive(&c07::C07, a, digest_only),
        "C12" => drive(&c12::C12, a, digest_only),
        "C16" => {
            if let Some(r) = &a.replay {
                return c16::replay(r);
            }
            c16::run(&c16::Args16 { tier: a.tier, seed: seed(), workers: a.workers, evidence: a.evidence, digest_only, max_units: a.runs.map(|n| n as usize) })
        }
        "C17" => drive(&c17::C17, a, digest_only),
        "C13" => drive(&c13::C13, a, digest_only),
        "C14" => drive(&c14::C14, a, digest_only),
        "C15" => drive(&c15::C15, a, digest_only),
        "C19" => drive(&c19::C19, a, digest_only),
        "C20" => drive(&c20::C20, a, digest_only),
        other => {
            eprintln!("harness error: no engine for {other}");
            2
        }
    }
}

fn main() {
    engine::install_panic_hook();
    let mut args = std::env::args();
    args.next();
    let mut peek: Vec<String> = args.collect();
    if peek.is_empty() {
        usage();
    }
    match peek[0].as_str() {
        "c16-child" => std::process::exit(c16::child_main(&peek[1..])),
        "c16-one" => std::process::exit(c16::one_main(&peek[1..])),
        _ => {}
    }
    let digest_only = peek[0] == "digest";
    if digest_only {
        peek.remove(0);
    }
    let a = parse_vec(peek);
    // a panic outside a guarded call is a harness error (exit 2), never a verdict
    let code = std::panic::catch_unwind(|| dispatch(&a, digest_only)).unwrap_or(2);
    std::process::exit(code);
}

fn parse_vec(v: Vec<String>) -> Args {
    let mut it = v.into_iter();
    let id = it.next().unwrap_or_else(|| usage());
    let mut tier = match std::env::var("VERIF_TIER").as_deref() {
        Ok("thorough") => Tier::Thorough,
        _ => Tier::Quick,
    };
    let mut replay = None;
    let mut runs = None;
    let mut workers = std::thread::available_parallelism().map(|n| n.get()).unwrap_or(4).min(16);
    let mut evidence = true;
    while let Some(x) = it.next() {
        match x.as_str() {
            "--tier" => {
                tier = match it.next().as_deref() {
                    Some("quick") => Tier::Quick,
                    Some("thorough") => Tier::Thorough,
                    _ => usage(),
                }
            }
            "--replay" => replay = Some(it.next().unwrap_or_else(|| usage())),
            "--runs" => runs = Some(it.next().and_then(|v| v.parse().ok()).unwrap_or_else(|| usage())),
            "--workers" => workers = it.next().and_then(|v| v.parse().ok()).unwrap_or_else(|| usage()),
            "--no-evidence" => evidence = false,
            _ => usage(),
        }
    }
    Args { id, tier, replay, runs, workers, evidence }
}

