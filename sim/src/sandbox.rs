//! Allocation accounting for the totality checks (C16).
//!
//! The harness installs this allocator globally. It is a pass-through to the system allocator unless the
//! *current thread* has armed a limit with [`arm`]; then it keeps the number of live bytes allocated since
//! arming and remembers the first request that pushed the live total over the limit ("memory unrelated to
//! the input size"). A request that is over the limit but below [`HARD`] is still served (untouched virtual
//! memory costs nothing), so the operation can go on and return its `Err`; the verdict is read afterwards with
//! [`disarm`]. A request of [`HARD`] bytes or more is refused (null), which makes std abort the process with
//! "memory allocation of N bytes failed" - the parent of the sandboxed child classifies that exit.
//!
//! Nothing here draws randomness or reads a clock; the thread-locals are `const`-initialised `Cell`s without
//! destructors, so using them inside the allocator is sound.

use std::alloc::{GlobalAlloc, Layout, System};
use std::cell::Cell;

pub const HARD: usize = 1 << 30;

thread_local! {
    static LIMIT: Cell<usize> = const { Cell::new(0) };
    static LIVE: Cell<usize> = const { Cell::new(0) };
    static PEAK: Cell<usize> = const { Cell::new(0) };
    static DENIED: Cell<usize> = const { Cell::new(0) };
}

pub struct LimitAlloc;

#[inline]
fn note_alloc(size: usize) -> bool {
    // returns false when the request must be refused
    LIMIT
        .try_with(|l| {
            let limit = l.get();
            if limit == 0 {
                return true;
            }
            let live = LIVE.with(|x| x.get()).saturating_add(size);
            if live > limit {
                DENIED.with(|d| {
                    if d.get() == 0 {
                        d.set(size.max(1));
                    }
                });
                if size >= HARD {
                    return false;
                }
            }
            LIVE.with(|x| x.set(live));
            PEAK.with(|p| {
                if live > p.get() {
                    p.set(live)
                }
            });
            true
        })
        .unwrap_or(true)
}

#[inline]
fn note_free(size: usize) {
    let _ = LIMIT.try_with(|l| {
        if l.get() != 0 {
            LIVE.with(|x| x.set(x.get().saturating_sub(size)));
        }
    });
}

unsafe impl GlobalAlloc for LimitAlloc {
    unsafe fn alloc(&self, layout: Layout) -> *mut u8 {
        if !note_alloc(layout.size()) {
            return std::ptr::null_mut();
        }
        System.alloc(layout)
    }
    unsafe fn alloc_zeroed(&self, layout: Layout) -> *mut u8 {
        if !note_alloc(layout.size()) {
            return std::ptr::null_mut();
        }
        System.alloc_zeroed(layout)
    }
    unsafe fn dealloc(&self, ptr: *mut u8, layout: Layout) {
        note_free(layout.size());
        System.dealloc(ptr, layout)
    }
    unsafe fn realloc(&self, ptr: *mut u8, layout: Layout, new_size: usize) -> *mut u8 {
        if new_size > layout.size() {
            if !note_alloc(new_size - layout.size()) {
                return std::ptr::null_mut();
            }
        } else {
            note_free(layout.size() - new_size);
        }
        System.realloc(ptr, layout, new_size)
    }
}

/// Arms the limit for the current thread. `limit` in bytes (> 0).
pub fn arm(limit: usize) {
    LIVE.with(|x| x.set(0));
    PEAK.with(|x| x.set(0));
    DENIED.with(|x| x.set(0));
    LIMIT.with(|x| x.set(limit.max(1)));
}

pub struct AllocVerdict {
    /// size of the first request that pushed the live total over the limit (0 = none)
    pub denied: usize,
    pub peak: usize,
}

pub fn disarm() -> AllocVerdict {
    LIMIT.with(|x| x.set(0));
    AllocVerdict { denied: DENIED.with(|x| x.get()), peak: PEAK.with(|x| x.get()) }
}

/// The limit the totality checks use: a generous constant plus a generous multiple of the input length (parsers may
/// legitimately hold structures that are polynomially larger than the text, e.g. nested class names).
pub fn limit_for(input_len: usize) -> usize {
    (64 << 20) + 1024 * input_len
}
