//! C20 helper: hand-built raw values with a distinct sentinel in every public field, next to the bytes JVMS
//! chapter 4 prescribes for them (written out by hand below, field by field).
//!
//! `read` and `write` of raw_class_file are derived from one field list, so a field in the wrong place, under
//! the wrong name or of the wrong width round-trips byte-exactly and is invisible to every comparison of the
//! crate with itself. These cases pin the meaning of each public field to the JVMS layout: `to_bytes(value)`
//! must equal the expected bytes and `read(expected bytes)` must return the value.
//!
//! Not repeated here (the raw-value edits of the engine build them by hand and judge them with the reference
//! parser): Long / Double pool entries, NestHost, NestMembers, PermittedSubclasses, MethodParameters,
//! Exceptions, Synthetic, Deprecated, SourceFile, Signature (class level), SourceDebugExtension, Other.

use raw_class_file::*;

#[derive(Default)]
struct B(Vec<u8>);
impl B {
    fn u1(mut self, v: u8) -> B {
        self.0.push(v);
        self
    }
    fn u2(mut self, v: u16) -> B {
        self.0.extend_from_slice(&v.to_be_bytes());
        self
    }
    fn u4(mut self, v: u32) -> B {
        self.0.extend_from_slice(&v.to_be_bytes());
        self
    }
    fn raw(mut self, b: &[u8]) -> B {
        self.0.extend_from_slice(b);
        self
    }
}
fn b() -> B {
    B::default()
}

pub struct Case {
    pub name: &'static str,
    pub value: ClassFile,
    pub bytes: Vec<u8>,
}

fn utf8(s: &str) -> CpInfo {
    CpInfo::Utf8 { bytes: s.as_bytes().to_vec() }
}

/// a class file that holds nothing but a pool of Utf8 names and one class-level attribute
fn attr_case(name: &'static str, names: &[&str], value: AttributeInfo, body: Vec<u8>) -> Case {
    let v = ClassFile {
        minor_version: 0,
        major_version: 0,
        constant_pool: names.iter().map(|n| utf8(n)).collect(),
        access_flags: 0,
        this_class: 0,
        super_class: 0,
        interfaces: vec![],
        fields: vec![],
        methods: vec![],
        attributes: vec![value],
    };
    let mut e = b().u4(0xCAFE_BABE).u2(0).u2(0).u2(names.len() as u16 + 1);
    for n in names {
        e = e.u1(1).u2(n.len() as u16).raw(n.as_bytes());
    }
    // access, this, super, interfaces_count, fields_count, methods_count, attributes_count
    e = e.u2(0).u2(0).u2(0).u2(0).u2(0).u2(0).u2(1);
    // attribute_name_index = 1, attribute_length, info
    e = e.u2(1).u4(body.len() as u32).raw(&body);
    Case { name, value: v, bytes: e.0 }
}

pub const COUNT: usize = 19;

/// case `i` (0..COUNT)
pub fn case(i: usize) -> Case {
    use AttributeInfo as A;
    use ElementValue as EV;
    use VerificationTypeInfo as VT;
    match i {
        0 => {
            // every pool entry kind except the two-slot ones
            let v = ClassFile {
                minor_version: 0x1718,
                major_version: 0x191a,
                constant_pool: vec![
                    CpInfo::Class { name_index: 0x0102 },
                    CpInfo::Fieldref { class_index: 0x0304, name_and_type_index: 0x0506 },
                    CpInfo::Methodref { class_index: 0x0708, name_and_type_index: 0x090a },
                    CpInfo::InterfaceMethodref { class_index: 0x0b0c, name_and_type_index: 0x0d0e },
                    CpInfo::String { string_index: 0x0f10 },
                    CpInfo::Integer { bytes: 0x1112_1314 },
                    CpInfo::Float { bytes: 0x1516_1718 },
                    CpInfo::NameAndType { name_index: 0x191a, descriptor_index: 0x1b1c },
                    CpInfo::Utf8 { bytes: vec![0x61, 0xc0, 0x80] },
                    CpInfo::MethodHandle { reference_kind: 0x1d, reference_index: 0x1e1f },
                    CpInfo::MethodType { descriptor_index: 0x2021 },
                    CpInfo::Dynamic { bootstrap_method_attr_index: 0x2223, name_and_type_index: 0x2425 },
                    CpInfo::InvokeDynamic { bootstrap_method_attr_index: 0x2627, name_and_type_index: 0x2829 },
                    CpInfo::Module { name_index: 0x2a2b },
                    CpInfo::Package { name_index: 0x2c2d },
                ],
                access_flags: 0x1112,
                this_class: 0x1314,
                super_class: 0x1516,
                interfaces: vec![0x0d0e, 0x0f10],
                fields: vec![FieldInfo { access_flags: 0x0102, name_index: 0x0304, descriptor_index: 0x0506, attributes: vec![] }],
                methods: vec![MethodInfo { access_flags: 0x0708, name_index: 0x090a, descriptor_index: 0x0b0c, attributes: vec![] }],
                attributes: vec![],
            };
            let e = b()
                .u4(0xCAFE_BABE)
                .u2(0x1718) // minor_version
                .u2(0x191a) // major_version
                .u2(16) // constant_pool_count
                .u1(7).u2(0x0102)
                .u1(9).u2(0x0304).u2(0x0506)
                .u1(10).u2(0x0708).u2(0x090a)
                .u1(11).u2(0x0b0c).u2(0x0d0e)
                .u1(8).u2(0x0f10)
                .u1(3).u4(0x1112_1314)
                .u1(4).u4(0x1516_1718)
                .u1(12).u2(0x191a).u2(0x1b1c)
                .u1(1).u2(3).raw(&[0x61, 0xc0, 0x80])
                .u1(15).u1(0x1d).u2(0x1e1f)
                .u1(16).u2(0x2021)
                .u1(17).u2(0x2223).u2(0x2425)
                .u1(18).u2(0x2627).u2(0x2829)
                .u1(19).u2(0x2a2b)
                .u1(20).u2(0x2c2d)
                .u2(0x1112) // access_flags
                .u2(0x1314) // this_class
                .u2(0x1516) // super_class
                .u2(2).u2(0x0d0e).u2(0x0f10) // interfaces
                .u2(1).u2(0x0102).u2(0x0304).u2(0x0506).u2(0) // field_info
                .u2(1).u2(0x0708).u2(0x090a).u2(0x0b0c).u2(0) // method_info
                .u2(0);
            Case { name: "pool-and-members", value: v, bytes: e.0 }
        }
        1 => attr_case("ConstantValue", &["ConstantValue"], A::ConstantValue { attribute_name_index: 1, constantvalue_index: 0x0102 }, b().u2(0x0102).0),
        2 => attr_case(
            "Code",
            &["Code", "LineNumberTable"],
            A::Code {
                attribute_name_index: 1,
                max_stack: 0x0102,
                max_locals: 0x0304,
                code: vec![0x2a, 0xb1],
                exception_table: vec![ExceptionTableEntry { start_pc: 0x0506, end_pc: 0x0708, handler_pc: 0x090a, catch_type: 0x0b0c }],
                attributes: vec![A::LineNumberTable { attribute_name_index: 2, line_number_table: vec![LineNumberTableEntry { start_pc: 0x0d0e, line_number: 0x0f10 }] }],
            },
            b().u2(0x0102).u2(0x0304).u4(2).raw(&[0x2a, 0xb1]).u2(1).u2(0x0506).u2(0x0708).u2(0x090a).u2(0x0b0c).u2(1).u2(2).u4(6).u2(1).u2(0x0d0e).u2(0x0f10).0,
        ),
        3 => attr_case(
            "StackMapTable",
            &["StackMapTable"],
            A::StackMapTable {
                attribute_name_index: 1,
                entries: vec![
                    StackMapFrame::SameFrame { offset_delta: 5 },
                    StackMapFrame::SameLocals1StackItemFrame { offset_delta: 3, stack: VT::Integer {} },
                    StackMapFrame::SameLocals1StackItemFrameExtended { offset_delta: 0x0102, stack: VT::Object { cpool_index: 0x0304 } },
                    StackMapFrame::ChopFrame { k: 2, offset_delta: 0x0506 },
                    StackMapFrame::SameFrameExtended { offset_delta: 0x0708 },
                    StackMapFrame::AppendFrame { offset_delta: 0x090a, locals: vec![VT::Top {}, VT::Float {}, VT::Unintialized { offset: 0x0b0c }] },
                    StackMapFrame::FullFrame { offset_delta: 0x0d0e, locals: vec![VT::Long {}, VT::Double {}, VT::Null {}], stack: vec![VT::UnintializedThis {}] },
                ],
            },
            b().u2(7)
                .u1(5) // same_frame
                .u1(64 + 3).u1(1) // same_locals_1_stack_item_frame, ITEM_Integer
                .u1(247).u2(0x0102).u1(7).u2(0x0304) // ..._extended, ITEM_Object
                .u1(249).u2(0x0506) // chop_frame, k = 251 - 249 = 2
                .u1(251).u2(0x0708) // same_frame_extended
                .u1(254).u2(0x090a).u1(0).u1(2).u1(8).u2(0x0b0c) // append_frame k = 3: Top, Float, Uninitialized
                .u1(255).u2(0x0d0e).u2(3).u1(4).u1(3).u1(5).u2(1).u1(6) // full_frame: Long, Double, Null / UninitializedThis
                .0,
        ),
        4 => attr_case(
            "InnerClasses",
            &["InnerClasses"],
            A::InnerClasses { attribute_name_index: 1, classes: vec![InnerClassesEntry { inner_class_info_index: 0x0102, outer_class_info_index: 0x0304, inner_name_index: 0x0506, inner_class_access_flags: 0x0708 }] },
            b().u2(1).u2(0x0102).u2(0x0304).u2(0x0506).u2(0x0708).0,
        ),
        5 => attr_case("EnclosingMethod", &["EnclosingMethod"], A::EnclosingMethod { attribute_name_index: 1, class_index: 0x0102, method_index: 0x0304 }, b().u2(0x0102).u2(0x0304).0),
        6 => attr_case(
            "LocalVariableTable",
            &["LocalVariableTable"],
            A::LocalVariableTable { attribute_name_index: 1, local_variable_table: vec![LocalVariableTableEntry { start_pc: 0x0102, length: 0x0304, name_index: 0x0506, descriptor_index: 0x0708, index: 0x090a }] },
            b().u2(1).u2(0x0102).u2(0x0304).u2(0x0506).u2(0x0708).u2(0x090a).0,
        ),
        7 => attr_case(
            "LocalVariableTypeTable",
            &["LocalVariableTypeTable"],
            A::LocalVariableTypeTable { attribute_name_index: 1, local_variable_type_table: vec![LocalVariableTypeTableEntry { start_pc: 0x0102, length: 0x0304, name_index: 0x0506, signature_index: 0x0708, index: 0x090a }] },
            b().u2(1).u2(0x0102).u2(0x0304).u2(0x0506).u2(0x0708).u2(0x090a).0,
        ),
        8 => {
            let pair = |n: u16, value: EV| ElementValuePairsEntry { element_name_index: n, value };
            attr_case(
                "RuntimeVisibleAnnotations",
                &["RuntimeVisibleAnnotations"],
                A::RuntimeVisibleAnnotations {
                    attribute_name_index: 1,
                    annotations: vec![Annotation {
                        type_index: 0x0102,
                        element_value_pairs: vec![
                            pair(0x1001, EV::Byte { const_value_index: 0x2001 }),
                            pair(0x1002, EV::Char { const_value_index: 0x2002 }),
                            pair(0x1003, EV::Double { const_value_index: 0x2003 }),
                            pair(0x1004, EV::Float { const_value_index: 0x2004 }),
                            pair(0x1005, EV::Integer { const_value_index: 0x2005 }),
                            pair(0x1006, EV::Long { const_value_index: 0x2006 }),
                            pair(0x1007, EV::Short { const_value_index: 0x2007 }),
                            pair(0x1008, EV::Boolean { const_value_index: 0x2008 }),
                            pair(0x1009, EV::String { const_value_index: 0x2009 }),
                            pair(0x100a, EV::Enum { type_name_index: 0x200a, const_name_index: 0x300a }),
                            pair(0x100b, EV::Class { class_info_index: 0x200b }),
                            pair(0x100c, EV::Annotation { annotation_value: Annotation { type_index: 0x200c, element_value_pairs: vec![] } }),
                            pair(0x100d, EV::Array { values: vec![EV::Integer { const_value_index: 0x200d }, EV::String { const_value_index: 0x200e }] }),
                        ],
                    }],
                },
                b().u2(1).u2(0x0102).u2(13)
                    .u2(0x1001).u1(b'B').u2(0x2001)
                    .u2(0x1002).u1(b'C').u2(0x2002)
                    .u2(0x1003).u1(b'D').u2(0x2003)
                    .u2(0x1004).u1(b'F').u2(0x2004)
                    .u2(0x1005).u1(b'I').u2(0x2005)
                    .u2(0x1006).u1(b'J').u2(0x2006)
                    .u2(0x1007).u1(b'S').u2(0x2007)
                    .u2(0x1008).u1(b'Z').u2(0x2008)
                    .u2(0x1009).u1(b's').u2(0x2009)
                    .u2(0x100a).u1(b'e').u2(0x200a).u2(0x300a)
                    .u2(0x100b).u1(b'c').u2(0x200b)
                    .u2(0x100c).u1(b'@').u2(0x200c).u2(0)
                    .u2(0x100d).u1(b'[').u2(2).u1(b'I').u2(0x200d).u1(b's').u2(0x200e)
                    .0,
            )
        }
        9 => attr_case(
            "RuntimeInvisibleAnnotations",
            &["RuntimeInvisibleAnnotations"],
            A::RuntimeInvisibleAnnotations { attribute_name_index: 1, annotations: vec![Annotation { type_index: 0x0102, element_value_pairs: vec![] }, Annotation { type_index: 0x0304, element_value_pairs: vec![] }] },
            b().u2(2).u2(0x0102).u2(0).u2(0x0304).u2(0).0,
        ),
        10 | 11 => {
            let pa = vec![ParameterAnnotationEntry { annotations: vec![Annotation { type_index: 0x0102, element_value_pairs: vec![] }] }, ParameterAnnotationEntry { annotations: vec![] }];
            // num_parameters is ONE byte
            let body = b().u1(2).u2(1).u2(0x0102).u2(0).u2(0).0;
            if i == 10 {
                attr_case("RuntimeVisibleParameterAnnotations", &["RuntimeVisibleParameterAnnotations"], A::RuntimeVisibleParameterAnnotations { attribute_name_index: 1, parameter_annotations: pa }, body)
            } else {
                attr_case("RuntimeInvisibleParameterAnnotations", &["RuntimeInvisibleParameterAnnotations"], A::RuntimeInvisibleParameterAnnotations { attribute_name_index: 1, parameter_annotations: pa }, body)
            }
        }
        12 => attr_case("AnnotationDefault", &["AnnotationDefault"], A::AnnotationDefault { attribute_name_index: 1, default_value: EV::Integer { const_value_index: 0x0102 } }, b().u1(b'I').u2(0x0102).0),
        13 => attr_case(
            "BootstrapMethods",
            &["BootstrapMethods"],
            A::BootstrapMethods { attribute_name_index: 1, bootstrap_methods: vec![BootstrapMethodsEntry { bootstrap_method_ref: 0x0102, boostrap_arguments: vec![0x0304, 0x0506] }, BootstrapMethodsEntry { bootstrap_method_ref: 0x0708, boostrap_arguments: vec![] }] },
            b().u2(2).u2(0x0102).u2(2).u2(0x0304).u2(0x0506).u2(0x0708).u2(0).0,
        ),
        14 => attr_case(
            "Module",
            &["Module"],
            A::Module {
                attribute_name_index: 1,
                module_name_index: 0x0102,
                module_flags: 0x0304,
                module_version_index: 0x0506,
                requires: vec![ModuleRequiresEntry { requires_index: 0x0708, requires_flags: 0x090a, requires_version_index: 0x0b0c }],
                exports: vec![ModuleExportsEntry { exports_index: 0x0d0e, exports_flags: 0x0f10, exports_to_index: vec![0x1112] }],
                opens: vec![ModuleOpensEntry { opens_index: 0x1314, opens_flags: 0x1516, opens_to_index: vec![0x1718, 0x191a] }],
                uses_index: vec![0x1b1c],
                provides: vec![ModuleProvidesEntry { provides_index: 0x1d1e, provides_with_index: vec![0x1f20] }],
            },
            b().u2(0x0102).u2(0x0304).u2(0x0506)
                .u2(1).u2(0x0708).u2(0x090a).u2(0x0b0c)
                .u2(1).u2(0x0d0e).u2(0x0f10).u2(1).u2(0x1112)
                .u2(1).u2(0x1314).u2(0x1516).u2(2).u2(0x1718).u2(0x191a)
                .u2(1).u2(0x1b1c)
                .u2(1).u2(0x1d1e).u2(1).u2(0x1f20)
                .0,
        ),
        15 => attr_case("ModulePackages", &["ModulePackages"], A::ModulePackages { attribute_name_index: 1, package_index: vec![0x0102, 0x0304] }, b().u2(2).u2(0x0102).u2(0x0304).0),
        16 => attr_case("ModuleMainClass", &["ModuleMainClass"], A::ModuleMainClass { attribute_name_index: 1, main_class_index: 0x0102 }, b().u2(0x0102).0),
        17 => attr_case(
            "Record",
            &["Record", "Signature"],
            A::Record {
                attribute_name_index: 1,
                components: vec![
                    RecordComponentInfo { name_index: 0x0102, descriptor_index: 0x0304, attributes: vec![A::Signature { attribute_name_index: 2, signature_index: 0x0506 }] },
                    RecordComponentInfo { name_index: 0x0708, descriptor_index: 0x090a, attributes: vec![] },
                ],
            },
            b().u2(2).u2(0x0102).u2(0x0304).u2(1).u2(2).u4(2).u2(0x0506).u2(0x0708).u2(0x090a).u2(0).0,
        ),
        _ => attr_case(
            "LineNumberTable",
            &["LineNumberTable"],
            A::LineNumberTable { attribute_name_index: 1, line_number_table: vec![LineNumberTableEntry { start_pc: 0x0102, line_number: 0x0304 }, LineNumberTableEntry { start_pc: 0x0506, line_number: 0x0708 }] },
            b().u2(2).u2(0x0102).u2(0x0304).u2(0x0506).u2(0x0708).0,
        ),
    }
}
