//! refnest: independent reference model of class nesting (property C14), written from the property statement,
//! JVMS 4.7.6/4.7.7 (InnerClasses / EnclosingMethod), JLS 13.1 (binary names of nested classes) and the
//! description of the nests text format. It shares no code with /repo. It works on `refclass::Sem` (jar side)
//! and `refmap::MapSet` (mappings side).
//!
//! Rules (each is either stated by the property or listed as an adopted assumption in `c14::assumptions`):
//!  * a nest applies to a jar iff its class is present in the jar and it satisfies the rule of its kind:
//!    anonymous: the inner name is a positive decimal number; inner: the table names no enclosing method that the
//!    enclosing class (as present in the jar) declares; local: the table names an enclosing method and the
//!    enclosing class in the jar declares it;
//!  * new name of an applied class = new-name(enclosing class) + '$' + inner name, where new-name(x) = x if x has
//!    no applied nest (transitive through chains);
//!  * every class-name-carrying position of every class is rewritten (names, descriptors, signatures);
//!  * the nested class itself carries an InnerClasses entry {inner = new name, outer = new enclosing name for
//!    member (inner) classes else none, simple name = inner name without the numeric prefix for inner and local
//!    classes else none, flags = table flags}; anonymous and local classes carry EnclosingMethod {new enclosing
//!    name, the table's method (descriptor rewritten)};
//!  * enclosing classes of applied nests that are missing from the jar exist afterwards;
//!  * mappings: every listed class is renamed the same way (no presence/kind filter), descriptors rewritten;
//!  * translation through mappings: see `remap_table`.

use crate::refmap::{mkey, split_lines, split_mkey, valid_method_name, valid_obj_class_name, ClassM, MapSet};
use refclass::sem::*;
use refclass::{JStr, Sem};
use serde::{Deserialize, Serialize};
use std::collections::{BTreeMap, BTreeSet};

#[derive(Clone, Copy, Debug, PartialEq, Eq, PartialOrd, Ord, Serialize, Deserialize)]
#[serde(rename_all = "snake_case")]
pub enum Kind {
    Anonymous,
    Inner,
    Local,
}
impl Kind {
    pub fn name(self) -> &'static str {
        match self {
            Kind::Anonymous => "anonymous",
            Kind::Inner => "inner",
            Kind::Local => "local",
        }
    }
}

#[derive(Clone, Debug, PartialEq, Eq, Serialize, Deserialize)]
pub struct NestM {
    pub kind: Kind,
    pub class: String,
    pub encl: String,
    /// (name, descriptor)
    pub method: Option<(String, String)>,
    pub inner: String,
    pub access: u16,
}

/// The bits an InnerClasses entry can carry (JVMS table 4.7.6-A).
pub const INNER_FLAG_BITS: u16 = 0x0001 | 0x0002 | 0x0004 | 0x0008 | 0x0010 | 0x0200 | 0x0400 | 0x1000 | 0x2000 | 0x4000;

/// Kind as the text format conveys it: the format has no kind column, the kind follows from the shape of the
/// inner name (JLS 13.1: `Outer$1` anonymous, `Outer$1Local` local, `Outer$Inner` member).
pub fn kind_of_inner_name(s: &str) -> Kind {
    if s.chars().all(|c| c.is_ascii_digit()) {
        Kind::Anonymous
    } else if s.chars().next().is_some_and(|c| c.is_ascii_digit()) {
        Kind::Local
    } else {
        Kind::Inner
    }
}

// ------------------------------------------------------------------------------------------------
// text format: one nest per line, six TAB separated columns:
//   class, enclosing class, enclosing method name, enclosing method descriptor, inner name, access flags
// access flags: decimal, or hexadecimal with prefix 0x, or binary with prefix 0b. An absent method is two empty columns.

#[derive(Clone, Debug, PartialEq, Eq, Serialize, Deserialize, Default)]
pub struct TextStyle {
    /// 0 decimal, 1 hex, 2 binary, 3 rotating per line
    pub radix: u8,
    pub crlf: bool,
    pub final_newline: bool,
}

pub fn write_nests_text(t: &[NestM], st: &TextStyle) -> String {
    let mut out = String::new();
    let nl = if st.crlf { "\r\n" } else { "\n" };
    for (i, n) in t.iter().enumerate() {
        let (mn, md) = match &n.method {
            Some((a, b)) => (a.as_str(), b.as_str()),
            None => ("", ""),
        };
        let radix = if st.radix == 3 { (i % 3) as u8 } else { st.radix };
        let acc = match radix {
            1 => format!("0x{:x}", n.access),
            2 => format!("0b{:b}", n.access),
            _ => format!("{}", n.access),
        };
        out.push_str(&format!("{}\t{}\t{}\t{}\t{}\t{}", n.class, n.encl, mn, md, n.inner, acc));
        if i + 1 < t.len() || st.final_newline {
            out.push_str(nl);
        }
    }
    out
}

fn parse_access(s: &str) -> Result<u16, String> {
    let (digits, radix) = if let Some(h) = s.strip_prefix("0x") {
        (h, 16)
    } else if let Some(b) = s.strip_prefix("0b") {
        (b, 2)
    } else {
        (s, 10)
    };
    if digits.is_empty() || !digits.chars().all(|c| c.is_digit(radix)) {
        return Err(format!("access flags {s:?}"));
    }
    u16::from_str_radix(digits, radix).map_err(|e| format!("access flags {s:?}: {e}"))
}

/// Strict reference reader. Duplicate class: the later line replaces the earlier one (at the earlier position).
pub fn read_nests_text(bytes: &[u8]) -> Result<Vec<NestM>, String> {
    let mut out: Vec<NestM> = vec![];
    for (i, line) in split_lines(bytes)?.into_iter().enumerate() {
        let f: Vec<&str> = line.split('\t').collect();
        if f.len() != 6 {
            return Err(format!("line {}: {} columns", i + 1, f.len()));
        }
        let (class, encl, mn, md, inner, acc) = (f[0], f[1], f[2], f[3], f[4], f[5]);
        if class.is_empty() || encl.is_empty() || inner.is_empty() {
            return Err(format!("line {}: empty name", i + 1));
        }
        if !valid_obj_class_name(class) || !valid_obj_class_name(encl) || !valid_obj_class_name(inner) {
            return Err(format!("line {}: invalid class name", i + 1));
        }
        let method = if mn.is_empty() || md.is_empty() {
            None
        } else {
            if !valid_method_name(mn) {
                return Err(format!("line {}: invalid method name", i + 1));
            }
            if refclass::desc::parse_method_desc(JStr::from_str(md).as_bytes()).is_none() {
                return Err(format!("line {}: invalid method descriptor", i + 1));
            }
            Some((mn.to_string(), md.to_string()))
        };
        let access = parse_access(acc).map_err(|e| format!("line {}: {e}", i + 1))?;
        let n = NestM { kind: kind_of_inner_name(inner), class: class.into(), encl: encl.into(), method, inner: inner.into(), access };
        match out.iter_mut().find(|x| x.class == n.class) {
            Some(slot) => *slot = n,
            None => out.push(n),
        }
    }
    Ok(out)
}

/// Table as a map (later entry for a class wins).
pub fn table_map(t: &[NestM]) -> BTreeMap<String, NestM> {
    let mut m = BTreeMap::new();
    for n in t {
        m.insert(n.class.clone(), n.clone());
    }
    m
}

/// First difference between two tables compared as maps class -> nest.
pub fn table_diff(want: &[NestM], got: &[NestM]) -> Option<(String, String)> {
    let (a, b) = (table_map(want), table_map(got));
    for (k, x) in &a {
        let Some(y) = b.get(k) else { return Some(("nest[?]".into(), format!("nest for {k:?} missing"))) };
        if x.kind != y.kind {
            return Some(("nest[?].kind".into(), format!("{k:?}: {:?} vs {:?}", x.kind, y.kind)));
        }
        if x.encl != y.encl {
            return Some(("nest[?].encl_class".into(), format!("{k:?}: {:?} vs {:?}", x.encl, y.encl)));
        }
        if x.method != y.method {
            let p = match (&x.method, &y.method) {
                (Some(p), Some(q)) if p.0 != q.0 => "nest[?].encl_method.name",
                (Some(_), Some(_)) => "nest[?].encl_method.desc",
                _ => "nest[?].encl_method.present",
            };
            return Some((p.into(), format!("{k:?}: {:?} vs {:?}", x.method, y.method)));
        }
        if x.inner != y.inner {
            return Some(("nest[?].inner_name".into(), format!("{k:?}: {:?} vs {:?}", x.inner, y.inner)));
        }
        // only the bits an InnerClasses entry defines are facts of a nest
        if x.access & INNER_FLAG_BITS != y.access & INNER_FLAG_BITS {
            return Some(("nest[?].access".into(), format!("{k:?}: {:#x} vs {:#x}", x.access, y.access)));
        }
    }
    for k in b.keys() {
        if !a.contains_key(k) {
            return Some(("nest[?]".into(), format!("unexpected nest for {k:?}")));
        }
    }
    None
}

// ------------------------------------------------------------------------------------------------
// which nests apply to a jar

#[derive(Default, Clone, Debug)]
pub struct JarFacts {
    /// class name -> declared methods (name, descriptor); only names that are text
    pub methods: BTreeMap<String, BTreeSet<(String, String)>>,
}
impl JarFacts {
    pub fn of(classes: &[&Sem]) -> JarFacts {
        let mut f = JarFacts::default();
        for s in classes {
            let Some(name) = s.this_class.to_str() else { continue };
            let e = f.methods.entry(name).or_default();
            for m in &s.methods {
                if let (Some(n), Some(d)) = (m.name.to_str(), m.desc.to_str()) {
                    e.insert((n, d));
                }
            }
        }
        f
    }
    pub fn present(&self, c: &str) -> bool {
        self.methods.contains_key(c)
    }
}

pub fn positive_number(s: &str) -> bool {
    !s.is_empty() && s.chars().all(|c| c.is_ascii_digit()) && s.chars().any(|c| c != '0')
}

pub fn method_present(n: &NestM, jar: &JarFacts) -> bool {
    match &n.method {
        Some(m) => jar.methods.get(&n.encl).is_some_and(|s| s.contains(m)),
        None => false,
    }
}

pub fn satisfies_rule(n: &NestM, jar: &JarFacts) -> bool {
    match n.kind {
        Kind::Anonymous => positive_number(&n.inner),
        Kind::Inner => !method_present(n, jar),
        Kind::Local => method_present(n, jar),
    }
}

/// Why a nest is not applied (probe names), None if it applies.
pub fn rejection(n: &NestM, jar: &JarFacts) -> Option<&'static str> {
    if !jar.present(&n.class) {
        return Some("nest.absent_class");
    }
    if satisfies_rule(n, jar) {
        return None;
    }
    Some(match n.kind {
        Kind::Anonymous => "nest.rejected.anonymous_not_positive_number",
        Kind::Inner => "nest.rejected.inner_with_enclosing_method",
        Kind::Local => "nest.rejected.local_without_enclosing_method",
    })
}

// ------------------------------------------------------------------------------------------------
// names

/// old name -> new name for every nest in `t` (transitive through chains inside `t`).
pub fn translation(t: &BTreeMap<String, NestM>) -> BTreeMap<String, String> {
    fn resolve(t: &BTreeMap<String, NestM>, x: &str, fuel: u32) -> String {
        match t.get(x) {
            Some(n) if fuel > 0 => format!("{}${}", resolve(t, &n.encl, fuel - 1), n.inner),
            _ => x.to_string(),
        }
    }
    t.keys().map(|k| (k.clone(), resolve(t, k, 64))).collect()
}

/// chain depth of a nest inside `t`: 1 = its enclosing class is not itself nested (by `t`)
pub fn chain_depth(t: &BTreeMap<String, NestM>, c: &str) -> u32 {
    let mut d = 0;
    let mut cur = c;
    while let Some(n) = t.get(cur) {
        d += 1;
        cur = &n.encl;
        if d > 64 {
            break;
        }
    }
    d
}

/// a class whose chain of enclosing classes comes back to itself, if any
pub fn cyclic_class(t: &BTreeMap<String, NestM>) -> Option<String> {
    for k in t.keys() {
        let mut cur = k.as_str();
        for _ in 0..=t.len() {
            match t.get(cur) {
                Some(n) => cur = &n.encl,
                None => break,
            }
            if cur == k {
                return Some(k.clone());
            }
        }
        // a chain that does not end within len+1 steps runs into a cycle further up; that cycle's members report it
    }
    None
}

/// JLS 13.1: the binary name of a local class is the enclosing name, `$`, a non-empty digit sequence, the simple name.
pub fn simple_name_of_inner(inner: &str) -> &str {
    let s = inner.trim_start_matches(|c: char| c.is_ascii_digit());
    if s.is_empty() {
        inner
    } else {
        s
    }
}

pub type ByteMap = BTreeMap<Vec<u8>, Vec<u8>>;

pub fn byte_map(m: &BTreeMap<String, String>) -> ByteMap {
    m.iter().map(|(k, v)| (JStr::from_str(k).0, JStr::from_str(v).0)).collect()
}

fn rn_bytes(m: &ByteMap, name: &[u8]) -> Vec<u8> {
    m.get(name).cloned().unwrap_or_else(|| name.to_vec())
}

/// A descriptor of any sort (field, method, return): every `L<name>;` is rewritten.
pub fn rn_desc_bytes(m: &ByteMap, d: &[u8]) -> Vec<u8> {
    let mut out = Vec::with_capacity(d.len());
    let mut i = 0;
    while i < d.len() {
        if d[i] == b'L' {
            if let Some(j) = d[i..].iter().position(|c| *c == b';') {
                out.push(b'L');
                out.extend_from_slice(&rn_bytes(m, &d[i + 1..i + j]));
                out.push(b';');
                i += j + 1;
                continue;
            }
            out.extend_from_slice(&d[i..]);
            break;
        }
        out.push(d[i]);
        i += 1;
    }
    out
}

pub fn rn_desc_str(m: &BTreeMap<String, String>, d: &str) -> String {
    // class names in text are UTF-8 here; the scan is the same (delimiters are ASCII)
    let bm: ByteMap = m.iter().map(|(k, v)| (k.as_bytes().to_vec(), v.as_bytes().to_vec())).collect();
    String::from_utf8(rn_desc_bytes(&bm, d.as_bytes())).expect("utf-8 in, utf-8 out")
}

fn rn(m: &ByteMap, n: &JStr) -> JStr {
    JStr(rn_bytes(m, n.as_bytes()))
}
/// what a CONSTANT_Class may hold: a class name or an array descriptor
fn rn_entry(m: &ByteMap, n: &JStr) -> JStr {
    if n.as_bytes().first() == Some(&b'[') {
        JStr(rn_desc_bytes(m, n.as_bytes()))
    } else {
        rn(m, n)
    }
}
fn rn_desc(m: &ByteMap, d: &JStr) -> JStr {
    JStr(rn_desc_bytes(m, d.as_bytes()))
}

/// Generic signatures (JVMS 4.7.9.1): the package-qualified class name that starts a ClassTypeSignature is a
/// reference to that class. (The `.Inner` suffix form is left alone: it names a member relative to the outer type.)
pub fn rn_sig_bytes(m: &ByteMap, s: &[u8]) -> Vec<u8> {
    struct P<'a> {
        s: &'a [u8],
        i: usize,
        out: Vec<u8>,
        m: &'a ByteMap,
        ok: bool,
    }
    impl P<'_> {
        fn peek(&self) -> Option<u8> {
            self.s.get(self.i).copied()
        }
        fn take(&mut self) {
            if let Some(c) = self.peek() {
                self.out.push(c);
                self.i += 1;
            } else {
                self.ok = false;
            }
        }
        fn until(&mut self, stops: &[u8]) -> Vec<u8> {
            let st = self.i;
            while let Some(c) = self.peek() {
                if stops.contains(&c) {
                    break;
                }
                self.i += 1;
            }
            self.s[st..self.i].to_vec()
        }
        fn type_sig(&mut self, depth: u32) {
            if depth > 64 {
                self.ok = false;
                return;
            }
            match self.peek() {
                Some(b'L') => self.class_type(depth),
                Some(b'T') => {
                    let v = self.until(b";");
                    self.out.extend_from_slice(&v);
                    self.take();
                }
                Some(b'[') => {
                    self.take();
                    self.type_sig(depth + 1);
                }
                Some(_) => self.take(),
                None => self.ok = false,
            }
        }
        fn type_args(&mut self, depth: u32) {
            self.take(); // <
            while self.ok && self.peek() != Some(b'>') {
                match self.peek() {
                    Some(b'*') => self.take(),
                    Some(b'+') | Some(b'-') => {
                        self.take();
                        self.type_sig(depth + 1);
                    }
                    Some(_) => self.type_sig(depth + 1),
                    None => self.ok = false,
                }
            }
            self.take(); // >
        }
        fn class_type(&mut self, depth: u32) {
            self.take(); // L
            let name = self.until(b"<;.");
            let new = rn_bytes(self.m, &name);
            self.out.extend_from_slice(&new);
            loop {
                match self.peek() {
                    Some(b'<') => self.type_args(depth),
                    Some(b'.') => {
                        self.take();
                        let id = self.until(b"<;.");
                        self.out.extend_from_slice(&id);
                    }
                    Some(b';') => {
                        self.take();
                        return;
                    }
                    _ => {
                        self.ok = false;
                        return;
                    }
                }
                if !self.ok {
                    return;
                }
            }
        }
        fn formals(&mut self) {
            self.take(); // <
            while self.ok && self.peek() != Some(b'>') {
                let id = self.until(b":");
                self.out.extend_from_slice(&id);
                if self.peek() != Some(b':') {
                    self.ok = false;
                    return;
                }
                while self.peek() == Some(b':') {
                    self.take();
                    if matches!(self.peek(), Some(b'L') | Some(b'T') | Some(b'[')) {
                        self.type_sig(0);
                    }
                }
            }
            self.take(); // >
        }
    }
    let mut p = P { s, i: 0, out: Vec::with_capacity(s.len()), m, ok: true };
    if p.peek() == Some(b'<') {
        p.formals();
    }
    while p.ok && p.i < s.len() {
        match p.peek() {
            Some(b'(') | Some(b')') | Some(b'^') => p.take(),
            _ => p.type_sig(0),
        }
    }
    if p.ok {
        p.out
    } else {
        s.to_vec()
    }
}
fn rn_sig(m: &ByteMap, s: &JStr) -> JStr {
    JStr(rn_sig_bytes(m, s.as_bytes()))
}

// ------------------------------------------------------------------------------------------------
// the reference renamer over `Sem`: every class-name-carrying position

fn rn_annotation(m: &ByteMap, a: &Annotation) -> Annotation {
    Annotation { type_desc: rn_desc(m, &a.type_desc), pairs: a.pairs.iter().map(|p| Pair { name: p.name.clone(), value: rn_ev(m, &p.value) }).collect() }
}
fn rn_ev(m: &ByteMap, v: &ElementValue) -> ElementValue {
    match v {
        ElementValue::Enum { type_desc, const_name } => ElementValue::Enum { type_desc: rn_desc(m, type_desc), const_name: const_name.clone() },
        ElementValue::Class(d) => ElementValue::Class(rn_desc(m, d)),
        ElementValue::Annotation(a) => ElementValue::Annotation(Box::new(rn_annotation(m, a))),
        ElementValue::Array(vs) => ElementValue::Array(vs.iter().map(|x| rn_ev(m, x)).collect()),
        other => other.clone(),
    }
}
fn rn_annos(m: &ByteMap, a: &Annotations) -> Annotations {
    Annotations { visible: a.visible.iter().map(|x| rn_annotation(m, x)).collect(), invisible: a.invisible.iter().map(|x| rn_annotation(m, x)).collect() }
}
fn rn_tannos(m: &ByteMap, a: &TypeAnnotations) -> TypeAnnotations {
    let f = |t: &TypeAnnotation| TypeAnnotation { target: t.target.clone(), path: t.path.clone(), annotation: rn_annotation(m, &t.annotation) };
    TypeAnnotations { visible: a.visible.iter().map(f).collect(), invisible: a.invisible.iter().map(f).collect() }
}
fn rn_member(m: &ByteMap, r: &MemberRef) -> MemberRef {
    MemberRef { owner: rn_entry(m, &r.owner), name: r.name.clone(), desc: rn_desc(m, &r.desc), is_interface: r.is_interface }
}
fn rn_handle(m: &ByteMap, h: &Handle) -> Handle {
    Handle { kind: h.kind, member: rn_member(m, &h.member) }
}
fn rn_dynamic(m: &ByteMap, d: &Dynamic) -> Dynamic {
    Dynamic { bsm: rn_handle(m, &d.bsm), args: d.args.iter().map(|c| rn_const(m, c)).collect(), name: d.name.clone(), desc: rn_desc(m, &d.desc) }
}
fn rn_const(m: &ByteMap, c: &Const) -> Const {
    match c {
        Const::Class(n) => Const::Class(rn_entry(m, n)),
        Const::MethodType(d) => Const::MethodType(rn_desc(m, d)),
        Const::MethodHandle(h) => Const::MethodHandle(rn_handle(m, h)),
        Const::Dynamic(d) => Const::Dynamic(Box::new(rn_dynamic(m, d))),
        other => other.clone(),
    }
}
fn rn_vtype(m: &ByteMap, v: &VType) -> VType {
    match v {
        VType::Object(n) => VType::Object(rn_entry(m, n)),
        o => o.clone(),
    }
}
fn rn_insn(m: &ByteMap, i: &Insn) -> Insn {
    match i {
        Insn::Ldc(c) => Insn::Ldc(rn_const(m, c)),
        Insn::Field(o, r) => Insn::Field(*o, rn_member(m, r)),
        Insn::Invoke(o, r) => Insn::Invoke(*o, rn_member(m, r)),
        Insn::InvokeDynamic(d) => Insn::InvokeDynamic(Box::new(rn_dynamic(m, d))),
        Insn::New(n) => Insn::New(rn_entry(m, n)),
        Insn::ANewArray(n) => Insn::ANewArray(rn_entry(m, n)),
        Insn::CheckCast(n) => Insn::CheckCast(rn_entry(m, n)),
        Insn::InstanceOf(n) => Insn::InstanceOf(rn_entry(m, n)),
        Insn::MultiANewArray(n, d) => Insn::MultiANewArray(rn_entry(m, n), *d),
        o => o.clone(),
    }
}
fn rn_code(m: &ByteMap, c: &Code) -> Code {
    Code {
        max_stack: c.max_stack,
        max_locals: c.max_locals,
        insns: c.insns.iter().map(|i| rn_insn(m, i)).collect(),
        exceptions: c.exceptions.iter().map(|e| ExceptionEntry { catch_type: e.catch_type.as_ref().map(|n| rn(m, n)), ..e.clone() }).collect(),
        line_numbers: c.line_numbers.clone(),
        local_vars: c.local_vars.iter().map(|v| LocalVar { desc: rn_desc(m, &v.desc), ..v.clone() }).collect(),
        local_var_types: c.local_var_types.iter().map(|v| LocalVar { desc: rn_sig(m, &v.desc), ..v.clone() }).collect(),
        frames: c.frames.iter().map(|f| Frame { at: f.at, locals: f.locals.iter().map(|v| rn_vtype(m, v)).collect(), stack: f.stack.iter().map(|v| rn_vtype(m, v)).collect() }).collect(),
        frames_raw: c.frames_raw.clone(),
        type_annotations: rn_tannos(m, &c.type_annotations),
        unknown: c.unknown.clone(),
    }
}

pub fn rename_sem(s: &Sem, m: &ByteMap) -> Sem {
    let mut o = s.clone();
    o.this_class = rn(m, &s.this_class);
    o.super_class = s.super_class.as_ref().map(|n| rn(m, n));
    o.interfaces = s.interfaces.iter().map(|n| rn(m, n)).collect();
    for f in &mut o.fields {
        f.desc = rn_desc(m, &f.desc);
        f.signature = f.signature.as_ref().map(|x| rn_sig(m, x));
        f.annotations = rn_annos(m, &f.annotations);
        f.type_annotations = rn_tannos(m, &f.type_annotations);
    }
    for me in &mut o.methods {
        me.desc = rn_desc(m, &me.desc);
        me.signature = me.signature.as_ref().map(|x| rn_sig(m, x));
        me.exceptions = me.exceptions.as_ref().map(|v| v.iter().map(|n| rn(m, n)).collect());
        me.annotations = rn_annos(m, &me.annotations);
        me.type_annotations = rn_tannos(m, &me.type_annotations);
        me.annotation_default = me.annotation_default.as_ref().map(|v| rn_ev(m, v));
        let pa = |x: &Option<Vec<Vec<Annotation>>>| x.as_ref().map(|ps| ps.iter().map(|l| l.iter().map(|a| rn_annotation(m, a)).collect()).collect());
        me.parameter_annotations = ParamAnnotations { visible: pa(&me.parameter_annotations.visible), invisible: pa(&me.parameter_annotations.invisible) };
        me.code = me.code.as_ref().map(|c| rn_code(m, c));
    }
    o.inner_classes = s.inner_classes.as_ref().map(|v| v.iter().map(|ic| InnerClass { inner: rn_entry(m, &ic.inner), outer: ic.outer.as_ref().map(|n| rn_entry(m, n)), inner_name: ic.inner_name.clone(), access: ic.access }).collect());
    o.enclosing_method = s.enclosing_method.as_ref().map(|e| EnclosingMethod { class: rn_entry(m, &e.class), method: e.method.as_ref().map(|(n, d)| (n.clone(), rn_desc(m, d))) });
    o.signature = s.signature.as_ref().map(|x| rn_sig(m, x));
    o.annotations = rn_annos(m, &s.annotations);
    o.type_annotations = rn_tannos(m, &s.type_annotations);
    o.nest_host = s.nest_host.as_ref().map(|n| rn(m, n));
    o.nest_members = s.nest_members.as_ref().map(|v| v.iter().map(|n| rn(m, n)).collect());
    o.permitted_subclasses = s.permitted_subclasses.as_ref().map(|v| v.iter().map(|n| rn(m, n)).collect());
    o.record = s.record.as_ref().map(|v| {
        v.iter()
            .map(|r| RecordComponent { name: r.name.clone(), desc: rn_desc(m, &r.desc), signature: r.signature.as_ref().map(|x| rn_sig(m, x)), annotations: rn_annos(m, &r.annotations), type_annotations: rn_tannos(m, &r.type_annotations), unknown: r.unknown.clone() })
            .collect()
    });
    if let Some(md) = &mut o.module {
        md.uses = md.uses.iter().map(|n| rn(m, n)).collect();
        for p in &mut md.provides {
            p.service = rn(m, &p.service);
            p.with = p.with.iter().map(|n| rn(m, n)).collect();
        }
    }
    o.module_main_class = s.module_main_class.as_ref().map(|n| rn(m, n));
    o
}

// ------------------------------------------------------------------------------------------------
// the jar

#[derive(Clone, Debug, PartialEq, Eq)]
pub enum RefEntry {
    Dir,
    Class(Box<Sem>),
    Other(Vec<u8>),
}

#[derive(Default, Debug)]
pub struct RefNested {
    /// every entry the output must contain, by entry name (renamed classes, untouched others)
    pub entries: BTreeMap<String, RefEntry>,
    /// entry names of enclosing classes that must have been created
    pub created: BTreeSet<String>,
    /// entry names of classes that may additionally exist (missing enclosing classes of nests that were not applied)
    pub tolerated: BTreeSet<String>,
    /// the nests that apply, by (old) class name
    pub applied: BTreeMap<String, NestM>,
    /// old class name -> new class name (applied nests only)
    pub names: BTreeMap<String, String>,
    /// some applied nest has a missing enclosing class that is itself listed in the table (presence is then
    /// a matter of interpretation: the created class was not in the jar)
    pub created_is_listed: bool,
    /// an input class entry whose name is not `<this_class>.class`: the engine's input assumption is broken
    /// (only possible on damaged media)
    pub name_mismatch: bool,
}

/// The attribute records a nested class carries (see module doc).
pub fn record_nest(s: &mut Sem, n: &NestM, names: &BTreeMap<String, String>, bm: &ByteMap) {
    let new_name = names.get(&n.class).cloned().unwrap_or_else(|| n.class.clone());
    let new_encl = names.get(&n.encl).cloned().unwrap_or_else(|| n.encl.clone());
    if matches!(n.kind, Kind::Anonymous | Kind::Local) {
        s.enclosing_method = Some(EnclosingMethod { class: JStr::from_str(&new_encl), method: n.method.as_ref().map(|(a, b)| (JStr::from_str(a), rn_desc(bm, &JStr::from_str(b)))) });
    }
    let e = InnerClass {
        inner: JStr::from_str(&new_name),
        outer: if n.kind == Kind::Inner { Some(JStr::from_str(&new_encl)) } else { None },
        inner_name: if n.kind == Kind::Anonymous { None } else { Some(JStr::from_str(simple_name_of_inner(&n.inner))) },
        access: n.access & INNER_FLAG_BITS,
    };
    s.inner_classes.get_or_insert_with(Vec::new).push(e);
}

pub fn nest_jar_ref(input: &[(String, RefEntry)], table: &[NestM]) -> RefNested {
    let sems: Vec<&Sem> = input.iter().filter_map(|(_, e)| if let RefEntry::Class(s) = e { Some(&**s) } else { None }).collect();
    let facts = JarFacts::of(&sems);
    let tm = table_map(table);
    let mut out = RefNested::default();
    for (k, n) in &tm {
        if rejection(n, &facts).is_none() {
            out.applied.insert(k.clone(), n.clone());
        }
    }
    out.names = translation(&out.applied);
    let bm = byte_map(&out.names);
    for (name, e) in input {
        match e {
            RefEntry::Class(s) => {
                let old = s.this_class.to_str().unwrap_or_default();
                if *name != format!("{old}.class") {
                    out.name_mismatch = true;
                }
                let mut r = rename_sem(s, &bm);
                if let Some(n) = out.applied.get(&old) {
                    record_nest(&mut r, n, &out.names, &bm);
                }
                let new = out.names.get(&old).cloned().unwrap_or(old);
                out.entries.insert(format!("{new}.class"), RefEntry::Class(Box::new(r)));
            }
            other => {
                out.entries.insert(name.clone(), other.clone());
            }
        }
    }
    for n in tm.values() {
        if !facts.present(&n.class) || facts.present(&n.encl) {
            continue;
        }
        if tm.contains_key(&n.encl) {
            out.created_is_listed = true;
        }
        if out.applied.contains_key(&n.class) {
            out.created.insert(format!("{}.class", n.encl));
        } else {
            out.tolerated.insert(format!("{}.class", n.encl));
        }
    }
    for c in &out.created {
        out.tolerated.remove(c);
    }
    out
}

// ------------------------------------------------------------------------------------------------
// mappings

/// Every listed class renamed in the source namespace, descriptors rewritten. Target names are left as they are
/// (the property does not speak about them; the engine excludes them from the comparison).
pub fn apply_to_mapset(m: &MapSet, table: &[NestM]) -> MapSet {
    let names = translation(&table_map(table));
    rename_mapset(m, &names)
}

pub fn rename_mapset(m: &MapSet, names: &BTreeMap<String, String>) -> MapSet {
    let mut o = MapSet { ns: m.ns.clone(), doc: m.doc.clone(), classes: Default::default() };
    for (k, c) in &m.classes {
        let mut nc = ClassM { names: c.names.clone(), doc: c.doc.clone(), ..Default::default() };
        for (fk, f) in &c.fields {
            let (n, d) = split_mkey(fk);
            nc.fields.insert(mkey(n, &rn_desc_str(names, d)), f.clone());
        }
        for (mk, me) in &c.methods {
            let (n, d) = split_mkey(mk);
            nc.methods.insert(mkey(n, &rn_desc_str(names, d)), me.clone());
        }
        o.classes.insert(names.get(k).cloned().unwrap_or_else(|| k.clone()), nc);
    }
    o
}

/// The same set with every class's target names blanked (for comparisons that exclude them).
pub fn without_target_class_names(m: &MapSet) -> MapSet {
    let mut o = m.clone();
    for c in o.classes.values_mut() {
        for n in c.names.iter_mut() {
            *n = None;
        }
    }
    o
}

/// Translation of a table through a two-namespace mapping set (source namespace -> target namespace).
///
/// Stated by the property: every nest is kept; class, enclosing class, enclosing method (name and descriptor) and
/// inner name are expressed in the target namespace; kind and flags are kept.
/// Adopted from the code where the property leaves it open (listed as assumptions):
///  * a class without a target name keeps its name; a method the mappings do not name keeps its name;
///  * a target name of the form `X__Y` (split at the last `__`) says that the target namespace already nests the
///    class: enclosing class `X`, inner name `Y`;
///  * otherwise: anonymous: the number, or the digits after `C_` when the target simple name is `C_<digits>`;
///    inner/local with a *derived* inner name (the source class name ends with the simple inner name): the target
///    simple name (local: prefixed by the numeric prefix); with a *custom* inner name: unchanged.
pub fn remap_table(table: &[NestM], m: &MapSet) -> Result<Vec<NestM>, String> {
    let cls: BTreeMap<String, String> = m.classes.iter().filter_map(|(k, c)| c.names.first().cloned().flatten().map(|d| (k.clone(), d))).collect();
    let t = |c: &str| cls.get(c).cloned().unwrap_or_else(|| c.to_string());
    let mut out: Vec<NestM> = vec![];
    for n in table_map_ordered(table) {
        let mapped = t(&n.class);
        let (encl, inner) = if let Some((a, b)) = mapped.rsplit_once("__") {
            if a.ends_with('/') || a.is_empty() || b.starts_with('/') || b.is_empty() {
                return Err(format!("target name {mapped:?} cannot be split at `__`"));
            }
            (a.to_string(), b.to_string())
        } else {
            let simple = mapped.rsplit_once('/').map_or(mapped.as_str(), |x| x.1);
            let inner = match kind_of_inner_name(&n.inner) {
                Kind::Anonymous => match simple.strip_prefix("C_") {
                    Some(num) if num.chars().all(|c| c.is_ascii_digit()) => num.to_string(),
                    Some(_) => return Err(format!("anonymous class with target name {mapped:?}")),
                    None => n.inner.clone(),
                },
                Kind::Inner => {
                    if n.class.ends_with(&n.inner) {
                        simple.to_string()
                    } else {
                        n.inner.clone()
                    }
                }
                Kind::Local => {
                    let s = simple_name_of_inner(&n.inner);
                    let prefix = &n.inner[..n.inner.len() - s.len()];
                    if n.class.ends_with(s) {
                        format!("{prefix}{simple}")
                    } else {
                        n.inner.clone()
                    }
                }
            };
            (t(&n.encl), inner)
        };
        let method = n.method.as_ref().map(|(mn, md)| {
            let name = if cls.contains_key(&n.encl) {
                m.classes.get(&n.encl).and_then(|c| c.methods.get(&mkey(mn, md))).and_then(|me| me.names.first().cloned().flatten()).unwrap_or_else(|| mn.clone())
            } else {
                mn.clone()
            };
            (name, rn_desc_str(&cls, md))
        });
        let r = NestM { kind: n.kind, class: mapped, encl, method, inner, access: n.access };
        match out.iter_mut().find(|x| x.class == r.class) {
            Some(slot) => *slot = r,
            None => out.push(r),
        }
    }
    Ok(out)
}

/// de-duplicated table in first-position order (later entry wins)
pub fn table_map_ordered(t: &[NestM]) -> Vec<NestM> {
    let mut out: Vec<NestM> = vec![];
    for n in t {
        match out.iter_mut().find(|x| x.class == n.class) {
            Some(slot) => *slot = n.clone(),
            None => out.push(n.clone()),
        }
    }
    out
}

#[cfg(test)]
mod tests {
    use super::*;
    fn bm(p: &[(&str, &str)]) -> ByteMap {
        p.iter().map(|(a, b)| (a.as_bytes().to_vec(), b.as_bytes().to_vec())).collect()
    }
    #[test]
    fn descs_and_sigs() {
        let m = bm(&[("a/B", "x/Y$B"), ("L", "Q$L")]);
        assert_eq!(rn_desc_bytes(&m, b"(La/B;[[La/B;ILL;)La/C;"), b"(Lx/Y$B;[[Lx/Y$B;ILQ$L;)La/C;".to_vec());
        assert_eq!(rn_sig_bytes(&m, b"<TL:La/B;U::Ljava/lang/Runnable;>La/B<TTL;>;"), b"<TL:Lx/Y$B;U::Ljava/lang/Runnable;>Lx/Y$B<TTL;>;".to_vec());
        assert_eq!(rn_sig_bytes(&m, b"(TT;[La/B;)TT;^La/B;"), b"(TT;[Lx/Y$B;)TT;^Lx/Y$B;".to_vec());
        assert_eq!(rn_sig_bytes(&m, b"Ljava/util/Map<TK;[Ljava/util/List<+La/B;>;>.Entry<**>;"), b"Ljava/util/Map<TK;[Ljava/util/List<+Lx/Y$B;>;>.Entry<**>;".to_vec());
    }
    #[test]
    fn text_roundtrip_and_kinds() {
        let t = vec![
            NestM { kind: Kind::Anonymous, class: "a".into(), encl: "b".into(), method: Some(("m".into(), "()V".into())), inner: "1".into(), access: 8 },
            NestM { kind: Kind::Local, class: "c".into(), encl: "b".into(), method: None, inner: "1Loc".into(), access: 0x4011 },
            NestM { kind: Kind::Inner, class: "d".into(), encl: "c".into(), method: None, inner: "In".into(), access: 0 },
        ];
        for radix in 0..4 {
            let s = write_nests_text(&t, &TextStyle { radix, crlf: radix % 2 == 1, final_newline: radix < 2 });
            assert_eq!(read_nests_text(s.as_bytes()).unwrap(), t);
        }
        let names = translation(&table_map(&t));
        assert_eq!(names["d"], "b$1Loc$In");
        assert_eq!(chain_depth(&table_map(&t), "d"), 2);
        assert!(read_nests_text(b"a\tb\t\t\t1\n\n").is_err());
        assert!(read_nests_text(b"a\tb\t\t\t1\t+5").is_err());
    }
}
