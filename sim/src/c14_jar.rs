//! C14 workload, jar half: explicit class plans (seed + config for `refclass::gen_class`, post-processed by explicit
//! edits that plant references to other classes at every class-name-carrying position).

use crate::rng::Rng;
use refclass::gen::feat;
use refclass::sem::*;
use refclass::{GenCfg, JStr, Sem};
use serde::{Deserialize, Serialize};

/// Where an edit plants a reference to `Edit::target`.
#[derive(Clone, Copy, Debug, PartialEq, Eq, Serialize, Deserialize)]
#[serde(rename_all = "snake_case")]
pub enum Pos {
    Super,
    Interface,
    FieldDesc,
    MethodDesc,
    New,
    CheckCast,
    InstanceOf,
    ANewArray,
    MultiANewArray,
    FieldInsn,
    InvokeInsn,
    InvokeOnArray,
    LdcClass,
    LdcMethodType,
    LdcHandle,
    Indy,
    Condy,
    Catch,
    Throws,
    Annotation,
    AnnoValues,
    ParamAnnotation,
    AnnotationDefault,
    TypeAnnotation,
    InnerClassInner,
    InnerClassOuter,
    EnclosingClass,
    NestHost,
    NestMember,
    Permitted,
    ClassSignature,
    FieldSignature,
    MethodSignature,
    LocalVar,
    LocalVarType,
    Frame,
    RecordComponent,
}

/// positions whose content duke/dukebox is known to lose or not to rewrite (kept out of "clean" runs)
pub const LOSSY_POS: &[Pos] = &[Pos::LocalVar, Pos::LocalVarType, Pos::Frame, Pos::RecordComponent, Pos::ParamAnnotation];
pub const SIGNATURE_POS: &[Pos] = &[Pos::ClassSignature, Pos::FieldSignature, Pos::MethodSignature];
pub const CLEAN_POS: &[Pos] = &[
    Pos::Super,
    Pos::Interface,
    Pos::FieldDesc,
    Pos::MethodDesc,
    Pos::New,
    Pos::CheckCast,
    Pos::InstanceOf,
    Pos::ANewArray,
    Pos::MultiANewArray,
    Pos::FieldInsn,
    Pos::InvokeInsn,
    Pos::InvokeOnArray,
    Pos::LdcClass,
    Pos::LdcMethodType,
    Pos::LdcHandle,
    Pos::Indy,
    Pos::Condy,
    Pos::Catch,
    Pos::Throws,
    Pos::Annotation,
    Pos::AnnoValues,
    Pos::AnnotationDefault,
    Pos::TypeAnnotation,
    Pos::InnerClassInner,
    Pos::InnerClassOuter,
    Pos::EnclosingClass,
    Pos::NestHost,
    Pos::NestMember,
    Pos::Permitted,
];

#[derive(Clone, Debug, PartialEq, Eq, Serialize, Deserialize)]
pub struct Edit {
    pub pos: Pos,
    pub target: String,
}

#[derive(Clone, Debug, PartialEq, Eq, Serialize, Deserialize)]
pub struct ClassPlan {
    pub name: String,
    pub seed: u64,
    /// refclass::gen::feat mask
    pub features: u32,
    pub max_members: u8,
    pub max_insns: u16,
    /// 0 = canonical layout, else seed of `gen_layout`
    pub layout: u64,
    /// indices (into the generated lists) of members the shrinker removed
    #[serde(default)]
    pub drop_fields: Vec<u16>,
    #[serde(default)]
    pub drop_methods: Vec<u16>,
    /// shrinker: strip every optional class-level attribute of the generated class
    #[serde(default)]
    pub bare: bool,
    /// strip generated RuntimeParameterAnnotations (duke has no representation for them)
    #[serde(default)]
    pub no_param_annotations: bool,
    /// keep out of the generated class what duke's *reader* refuses although it is well-formed (matters of C01, they
    /// would only prevent nest_jar from being exercised): SourceDebugExtension that is not UTF-8, Fieldrefs (also
    /// inside method handles) whose class is an array type, exception ranges ending at code_length
    #[serde(default)]
    pub tame: bool,
    /// additionally declared methods (name, descriptor), native, without code: enclosing methods named by nests
    #[serde(default)]
    pub decl_methods: Vec<(String, String)>,
    #[serde(default)]
    pub edits: Vec<Edit>,
}

fn j(s: &str) -> JStr {
    JStr::from_str(s)
}
fn ld(t: &str) -> JStr {
    j(&format!("L{t};"))
}

fn need(s: &mut Sem, major: u16) {
    if s.major < major {
        s.major = major;
        s.minor = 0;
    }
}

fn code_method(name: String, insns: Vec<Insn>) -> Method {
    Method { access: 0x0009, name: j(&name), desc: j("()V"), code: Some(Code { max_stack: 8, max_locals: 2, insns, ..Code::default() }), ..Method::default() }
}
fn native_method(name: String, desc: &str) -> Method {
    Method { access: 0x0101, name: j(&name), desc: j(desc), ..Method::default() }
}

const POP: u8 = refclass::op::POP;
const RETURN: u8 = refclass::op::RETURN;
const NOP: u8 = refclass::op::NOP;
const ACONST_NULL: u8 = 1;
const ICONST_0: u8 = 3;

fn apply_edit(s: &mut Sem, e: &Edit, idx: usize) {
    let t = e.target.as_str();
    let tj = j(t);
    let name = format!("r{idx}");
    let is_interface = s.access & 0x0200 != 0;
    let mref = |owner: JStr, n: &str, d: String| MemberRef { owner, name: j(n), desc: j(&d), is_interface: false };
    let anno = || Annotation { type_desc: ld(t), pairs: vec![] };
    let simple = |o: u8| Insn::Simple(o);
    match e.pos {
        Pos::Super => {
            if is_interface || s.record.is_some() {
                s.interfaces.push(tj);
            } else {
                s.super_class = Some(tj);
            }
        }
        Pos::Interface => s.interfaces.push(tj),
        Pos::FieldDesc => {
            let d = if idx % 2 == 0 { format!("L{t};") } else { format!("[[L{t};") };
            s.fields.push(Field { access: 0x0002, name: j(&name), desc: j(&d), ..Field::default() });
        }
        Pos::MethodDesc => s.methods.push(native_method(name, &format!("(L{t};[L{t};I)L{t};"))),
        Pos::New => s.methods.push(code_method(name, vec![Insn::New(tj), simple(POP), simple(RETURN)])),
        Pos::CheckCast => {
            let c = if idx % 2 == 0 { tj } else { j(&format!("[L{t};")) };
            s.methods.push(code_method(name, vec![simple(ACONST_NULL), Insn::CheckCast(c), simple(POP), simple(RETURN)]))
        }
        Pos::InstanceOf => s.methods.push(code_method(name, vec![simple(ACONST_NULL), Insn::InstanceOf(tj), simple(POP), simple(RETURN)])),
        Pos::ANewArray => {
            let c = if idx % 2 == 0 { tj } else { j(&format!("[L{t};")) };
            s.methods.push(code_method(name, vec![simple(ICONST_0), Insn::ANewArray(c), simple(POP), simple(RETURN)]))
        }
        Pos::MultiANewArray => s.methods.push(code_method(name, vec![simple(ICONST_0), simple(ICONST_0), Insn::MultiANewArray(j(&format!("[[L{t};")), 2), simple(POP), simple(RETURN)])),
        Pos::FieldInsn => s.methods.push(code_method(name, vec![Insn::Field(FieldOp::GetStatic, mref(tj, "f", format!("L{t};"))), simple(POP), simple(RETURN)])),
        Pos::InvokeInsn => s.methods.push(code_method(name, vec![simple(ACONST_NULL), Insn::Invoke(InvokeOp::Static, mref(tj, "m", format!("(L{t};)L{t};"))), simple(POP), simple(RETURN)])),
        Pos::InvokeOnArray => s.methods.push(code_method(name, vec![simple(ACONST_NULL), Insn::Invoke(InvokeOp::Virtual, mref(j(&format!("[L{t};")), "clone", "()Ljava/lang/Object;".into())), simple(POP), simple(RETURN)])),
        Pos::LdcClass => {
            need(s, 49);
            let c = if idx % 2 == 0 { tj } else { j(&format!("[L{t};")) };
            s.methods.push(code_method(name, vec![Insn::Ldc(Const::Class(c)), simple(POP), simple(RETURN)]))
        }
        Pos::LdcMethodType => {
            need(s, 51);
            s.methods.push(code_method(name, vec![Insn::Ldc(Const::MethodType(j(&format!("(L{t};)V")))), simple(POP), simple(RETURN)]))
        }
        Pos::LdcHandle => {
            need(s, 51);
            let h = Handle { kind: 6, member: mref(tj, "m", format!("(L{t};)V")) };
            s.methods.push(code_method(name, vec![Insn::Ldc(Const::MethodHandle(h)), simple(POP), simple(RETURN)]))
        }
        Pos::Indy => {
            need(s, 51);
            let d = Dynamic {
                bsm: Handle { kind: 6, member: mref(tj.clone(), "bsm", format!("(L{t};)Ljava/lang/Object;")) },
                args: vec![Const::Class(tj), Const::MethodType(j(&format!("(L{t};)V")))],
                name: j("run"),
                desc: j(&format!("(L{t};)L{t};")),
            };
            s.methods.push(code_method(name, vec![simple(ACONST_NULL), Insn::InvokeDynamic(Box::new(d)), simple(POP), simple(RETURN)]))
        }
        Pos::Condy => {
            need(s, 55);
            let d = Dynamic { bsm: Handle { kind: 6, member: mref(tj.clone(), "bsm", format!("(L{t};)Ljava/lang/Object;")) }, args: vec![Const::Class(tj)], name: j("k"), desc: ld(t) };
            s.methods.push(code_method(name, vec![Insn::Ldc(Const::Dynamic(Box::new(d))), simple(POP), simple(RETURN)]))
        }
        Pos::Catch => {
            let mut m = code_method(name, vec![simple(NOP), simple(RETURN), simple(POP), simple(RETURN)]);
            m.code.as_mut().unwrap().exceptions.push(ExceptionEntry { start: 0, end: 1, handler: 2, catch_type: Some(tj) });
            s.methods.push(m)
        }
        Pos::Throws => {
            let mut m = native_method(name, "()V");
            m.exceptions = Some(vec![tj]);
            s.methods.push(m)
        }
        Pos::Annotation => {
            need(s, 49);
            s.annotations.visible.push(anno())
        }
        Pos::AnnoValues => {
            need(s, 49);
            let pairs = vec![
                Pair { name: j("e"), value: ElementValue::Enum { type_desc: ld(t), const_name: j("X") } },
                Pair { name: j("c"), value: ElementValue::Class(ld(t)) },
                Pair { name: j("ca"), value: ElementValue::Class(j(&format!("[L{t};"))) },
                Pair { name: j("n"), value: ElementValue::Annotation(Box::new(anno())) },
                Pair { name: j("a"), value: ElementValue::Array(vec![ElementValue::Class(ld(t)), ElementValue::Enum { type_desc: ld(t), const_name: j("Y") }]) },
            ];
            s.annotations.invisible.push(Annotation { type_desc: j("Lzz/Anno;"), pairs })
        }
        Pos::ParamAnnotation => {
            need(s, 49);
            let mut m = native_method(name, "(I)V");
            m.parameter_annotations.visible = Some(vec![vec![anno()]]);
            s.methods.push(m)
        }
        Pos::AnnotationDefault => {
            need(s, 49);
            let mut m = Method { access: 0x0401, name: j(&name), desc: j("()Ljava/lang/Class;"), ..Method::default() };
            m.annotation_default = Some(ElementValue::Class(ld(t)));
            s.methods.push(m)
        }
        Pos::TypeAnnotation => {
            need(s, 52);
            s.type_annotations.visible.push(TypeAnnotation { target: Target::Supertype(65535), path: vec![], annotation: anno() })
        }
        Pos::InnerClassInner => {
            let this = s.this_class.clone();
            s.inner_classes.get_or_insert_with(Vec::new).push(InnerClass { inner: tj, outer: Some(this), inner_name: Some(j("X")), access: 0x0009 })
        }
        Pos::InnerClassOuter => s.inner_classes.get_or_insert_with(Vec::new).push(InnerClass { inner: j(&format!("zz/Other{idx}")), outer: Some(tj), inner_name: Some(j("Y")), access: 0x0008 }),
        Pos::EnclosingClass => {
            need(s, 49);
            s.enclosing_method = Some(EnclosingMethod { class: tj, method: Some((j("m"), j(&format!("(L{t};)V")))) })
        }
        Pos::NestHost => {
            need(s, 55);
            s.nest_members = None;
            s.nest_host = Some(tj)
        }
        Pos::NestMember => {
            need(s, 55);
            s.nest_host = None;
            s.nest_members.get_or_insert_with(Vec::new).push(tj)
        }
        Pos::Permitted => {
            need(s, 61);
            s.permitted_subclasses.get_or_insert_with(Vec::new).push(tj)
        }
        Pos::ClassSignature => {
            need(s, 49);
            s.signature = Some(j(&format!("<T:L{t};>Ljava/lang/Object;L{t}<Ljava/lang/String;>;")))
        }
        Pos::FieldSignature => {
            need(s, 49);
            s.fields.push(Field { access: 0x0002, name: j(&name), desc: ld(t), signature: Some(j(&format!("L{t}<Ljava/lang/String;>;"))), ..Field::default() })
        }
        Pos::MethodSignature => {
            need(s, 49);
            let mut m = native_method(name, &format!("(L{t};)V"));
            m.signature = Some(j(&format!("<T:L{t};>(TT;)V^L{t};")));
            s.methods.push(m)
        }
        Pos::LocalVar => {
            let mut m = code_method(name, vec![simple(NOP), simple(RETURN)]);
            m.code.as_mut().unwrap().local_vars.push(LocalVar { start: 0, end: 2, name: j("v"), desc: ld(t), slot: 0 });
            s.methods.push(m)
        }
        Pos::LocalVarType => {
            need(s, 49);
            let mut m = code_method(name, vec![simple(NOP), simple(RETURN)]);
            let c = m.code.as_mut().unwrap();
            c.local_vars.push(LocalVar { start: 0, end: 2, name: j("v"), desc: ld(t), slot: 0 });
            c.local_var_types.push(LocalVar { start: 0, end: 2, name: j("v"), desc: j(&format!("L{t}<Ljava/lang/String;>;")), slot: 0 });
            s.methods.push(m)
        }
        Pos::Frame => {
            need(s, 50);
            let mut m = code_method(name, vec![simple(NOP), simple(RETURN)]);
            m.code.as_mut().unwrap().frames.push(Frame { at: 1, locals: vec![VType::Object(tj)], stack: vec![] });
            s.methods.push(m)
        }
        Pos::RecordComponent => {
            need(s, 60);
            s.record.get_or_insert_with(Vec::new).push(RecordComponent { name: j(&name), desc: ld(t), ..RecordComponent::default() })
        }
    }
}

/// Methods of array types are the JDK's (`clone`); their descriptors never name application classes. The random
/// generator does not know that; dukebox deliberately leaves such descriptors alone.
fn jdk_array_method(r: &mut MemberRef) {
    if r.owner.as_bytes().first() == Some(&b'[') {
        r.name = j("clone");
        r.desc = j("()Ljava/lang/Object;");
    }
}
fn arr_handle(h: &mut Handle) {
    if h.kind >= 5 {
        jdk_array_method(&mut h.member);
    }
}
fn arr_dynamic(d: &mut Dynamic) {
    arr_handle(&mut d.bsm);
    d.args.iter_mut().for_each(arr_const);
}
fn arr_const(c: &mut Const) {
    match c {
        Const::MethodHandle(h) => arr_handle(h),
        Const::Dynamic(d) => arr_dynamic(d),
        _ => {}
    }
}
fn array_methods_are_jdk_methods(s: &mut Sem) {
    for m in &mut s.methods {
        let Some(c) = &mut m.code else { continue };
        for i in &mut c.insns {
            match i {
                Insn::Invoke(_, r) => jdk_array_method(r),
                Insn::Ldc(k) => arr_const(k),
                Insn::InvokeDynamic(d) => arr_dynamic(d),
                _ => {}
            }
        }
    }
}

fn tame_member(r: &mut MemberRef) {
    if r.owner.as_bytes().first() == Some(&b'[') {
        r.owner = j("java/lang/Object");
    }
}
fn tame_handle(h: &mut Handle) {
    if h.kind <= 4 {
        tame_member(&mut h.member);
    }
}
fn tame_dynamic(d: &mut Dynamic) {
    tame_handle(&mut d.bsm);
    d.args.iter_mut().for_each(tame_const);
}
fn tame_const(c: &mut Const) {
    match c {
        Const::MethodHandle(h) => tame_handle(h),
        Const::Dynamic(d) => tame_dynamic(d),
        _ => {}
    }
}
fn tame(s: &mut Sem) {
    s.source_debug_extension = None;
    for m in &mut s.methods {
        let Some(c) = &mut m.code else { continue };
        let n = c.insns.len();
        c.exceptions.retain(|e| e.end < n);
        for i in &mut c.insns {
            match i {
                Insn::Field(_, r) => tame_member(r),
                Insn::Ldc(k) => tame_const(k),
                Insn::InvokeDynamic(d) => tame_dynamic(d),
                _ => {}
            }
        }
    }
}

pub fn build_class(p: &ClassPlan) -> Sem {
    let cfg = GenCfg { max_members: p.max_members as usize, max_insns: p.max_insns.max(1) as usize, features: p.features & !(feat::MODULE | feat::UNICODE), major_min: 45, major_max: 67 };
    let mut r = Rng::new(p.seed);
    let mut s = refclass::gen_class(&mut r, &cfg);
    s.this_class = j(&p.name);
    if s.minor == 65535 {
        // preview-feature marker: duke's reader refuses it (a reader matter, C01), nothing to do with nesting
        s.minor = 0;
    }
    let keep = |drop: &Vec<u16>, i: usize| !drop.contains(&(i as u16));
    let mut i = 0;
    s.fields.retain(|_| {
        i += 1;
        keep(&p.drop_fields, i - 1)
    });
    let mut i = 0;
    s.methods.retain(|_| {
        i += 1;
        keep(&p.drop_methods, i - 1)
    });
    if p.bare {
        let (minor, major, access, this_class, super_class, fields, methods) = (s.minor, s.major, s.access, s.this_class.clone(), s.super_class.clone(), std::mem::take(&mut s.fields), std::mem::take(&mut s.methods));
        s = Sem { minor, major, access, this_class, super_class, fields, methods, ..Sem::default() };
    }
    array_methods_are_jdk_methods(&mut s);
    if p.tame {
        tame(&mut s);
    }
    if p.no_param_annotations {
        for m in &mut s.methods {
            m.parameter_annotations = ParamAnnotations::default();
        }
    }
    for (n, d) in &p.decl_methods {
        s.methods.push(native_method(n.clone(), d));
    }
    for (i, e) in p.edits.iter().enumerate() {
        apply_edit(&mut s, e, i);
    }
    s
}

pub fn layout_of(p: &ClassPlan) -> refclass::Layout {
    if p.layout == 0 {
        refclass::Layout { emit_map: false, ..refclass::Layout::default() }
    } else {
        let mut r = Rng::new(p.layout);
        refclass::Layout { emit_map: false, ..refclass::gen_layout(&mut r) }
    }
}

/// (number of generated fields, methods) before drops: the shrinker needs the index ranges
pub fn generated_member_counts(p: &ClassPlan) -> (usize, usize) {
    let q = ClassPlan { drop_fields: vec![], drop_methods: vec![], decl_methods: vec![], edits: vec![], bare: false, ..p.clone() };
    let s = build_class(&q);
    (s.fields.len(), s.methods.len())
}
