//! SimDir: the simulated disk for the path-taking APIs (they call std::fs directly; there is no trait to
//! substitute). A private scratch directory on tmpfs, created and destroyed per run. The simulator decides
//! the creation order of the files (on this kernel's tmpfs, readdir lists newest first, i.e. listing order
//! is a pure function of creation order) and the mutations between operations.

use std::path::{Path, PathBuf};
use std::sync::atomic::{AtomicU64, Ordering};

static COUNTER: AtomicU64 = AtomicU64::new(0);

pub struct SimDir {
    /// what is removed at the end (the root itself, or the directory that holds a styled root)
    holder: PathBuf,
    /// the path handed to the code under test (differs from `root` for the styles that reach it another way)
    given: PathBuf,
    root: PathBuf,
    pub syscalls: u64,
    /// read ends of the pipes that stand behind "pipe files" (kept open so that /proc/self/fd/<n> stays valid)
    pipes: Vec<std::io::PipeReader>,
}

pub fn base() -> PathBuf {
    let shm = Path::new("/dev/shm");
    if shm.is_dir() {
        shm.to_path_buf()
    } else {
        std::env::temp_dir()
    }
}

impl SimDir {
    pub fn new(tag: &str) -> SimDir {
        let n = COUNTER.fetch_add(1, Ordering::Relaxed);
        let root = base().join(format!("verif-sim-{}-{tag}-{n}", std::process::id()));
        let _ = std::fs::remove_dir_all(&root);
        std::fs::create_dir_all(&root).expect("simdir: create root");
        SimDir { holder: root.clone(), given: root.clone(), root, syscalls: 1, pipes: vec![] }
    }
    /// A simulated disk below a directory whose name is NOT valid UTF-8 (legal on unix: a Latin-1 name): paths handed
    /// to the code under test cannot be turned into `&str` (missed seeded change C12-17: mapping files recognised by
    /// `path.to_str()...ends_with(..)`)
    pub fn new_raw_root(tag: &str) -> SimDir {
        use std::os::unix::ffi::OsStrExt;
        let mut d = SimDir::new(tag);
        let root = d.holder.join(std::ffi::OsStr::from_bytes(b"m\xE4ppings"));
        std::fs::create_dir_all(&root).expect("simdir: raw root");
        d.root = root.clone();
        d.given = root;
        d
    }
    /// A simulated disk whose root directory is named / reached per `style` (see `styled_dir`); `given_path()` is what
    /// the code under test gets, every file operation of the simulator works on the real directory.
    pub fn new_styled(tag: &str, style: u8, ext: &str) -> SimDir {
        let mut d = SimDir::new(tag);
        if style % 8 == 0 {
            return d;
        }
        let (real, given) = d.styled_dir("d", style, ext);
        d.root = d.holder.join(real);
        d.given = given;
        d
    }
    pub fn given_path(&self) -> &Path {
        &self.given
    }
    pub fn path(&self) -> &Path {
        &self.root
    }
    pub fn join(&self, rel: &str) -> PathBuf {
        self.root.join(rel)
    }
    pub fn create(&mut self, rel: &str, bytes: &[u8]) {
        let p = self.root.join(rel);
        if let Some(parent) = p.parent() {
            std::fs::create_dir_all(parent).expect("simdir: mkdir");
        }
        // remove first so that re-creating a file also moves it to the front of the listing
        let _ = std::fs::remove_file(&p);
        std::fs::write(&p, bytes).expect("simdir: write");
        self.syscalls += 3;
    }
    /// a file whose NAME is given as raw bytes (not necessarily UTF-8), directly below the root
    pub fn create_raw(&mut self, name: &[u8], bytes: &[u8]) {
        use std::os::unix::ffi::OsStrExt;
        let p = self.root.join(std::ffi::OsStr::from_bytes(name));
        let _ = std::fs::remove_file(&p);
        std::fs::write(&p, bytes).expect("simdir: write raw name");
        self.syscalls += 2;
    }
    /// like `create`, but the directory entry is a symbolic link to a regular file kept outside the directory
    /// (a legal way to lay a directory out; whoever asks the entry for its type without following links sees
    /// "symlink", not "file")
    pub fn create_link(&mut self, rel: &str, bytes: &[u8]) {
        let store = self.store();
        std::fs::create_dir_all(&store).expect("simdir: mkdir store");
        let target = store.join(format!("f{}", self.syscalls));
        std::fs::write(&target, bytes).expect("simdir: write store");
        let p = self.root.join(rel);
        if let Some(parent) = p.parent() {
            std::fs::create_dir_all(parent).expect("simdir: mkdir");
        }
        let _ = std::fs::remove_file(&p);
        std::os::unix::fs::symlink(&target, &p).expect("simdir: symlink");
        self.syscalls += 5;
    }
    /// A sub-directory of the simulated disk whose NAME and the PATH it is reached by are the simulator's choice
    /// (`style`): the code under test gets `given`, the files physically live under `real` (relative to the root).
    /// 0 plain; 1 hidden (leading dot); 2 a space in the name; 3 non-ASCII name; 4 named like one of the files it
    /// holds (`ext`); 5 reached as `<name>/.`; 6 reached through `..`; 7 reached through a symbolic link to the
    /// directory. Every one of them is an ordinary way to name or reach a directory.
    pub fn styled_dir(&mut self, name: &str, style: u8, ext: &str) -> (String, PathBuf) {
        let (real, given): (String, PathBuf) = match style % 8 {
            1 => (format!(".{name}"), self.root.join(format!(".{name}"))),
            2 => (format!("{name} dir"), self.root.join(format!("{name} dir"))),
            3 => (format!("{name}-\u{fc}\u{f1}\u{76ee}"), self.root.join(format!("{name}-\u{fc}\u{f1}\u{76ee}"))),
            4 => (format!("{name}{ext}"), self.root.join(format!("{name}{ext}"))),
            5 => (name.to_string(), self.root.join(name).join(".")),
            6 => {
                let _ = std::fs::create_dir_all(self.root.join(format!("{name}-side")));
                (name.to_string(), self.root.join(format!("{name}-side")).join("..").join(name))
            }
            7 => {
                let real = format!("{name}-real");
                let _ = std::fs::create_dir_all(self.root.join(&real));
                let link = self.root.join(name);
                let _ = std::fs::remove_file(&link);
                std::os::unix::fs::symlink(self.root.join(&real), &link).expect("simdir: symlink to directory");
                (real, link)
            }
            _ => (name.to_string(), self.root.join(name)),
        };
        std::fs::create_dir_all(self.root.join(&real)).expect("simdir: mkdir styled");
        self.syscalls += 2;
        (real, given)
    }
    /// like `create`, but the entry is a PIPE: a symbolic link to /proc/self/fd/<read end of a pipe that holds the
    /// bytes and has no writer left>. Opening it never blocks (a pipefs inode is re-opened without waiting for a
    /// partner), reading delivers the bytes and then end-of-file, and `metadata().len()` answers 0 - the way named
    /// pipes, `<(...)` substitutions, /dev/stdin and procfs files report a size that says nothing about the data.
    /// One delivery per call of this function; falls back to a regular file when the bytes do not fit a pipe buffer
    /// or procfs is not there. Returns true when a pipe was made. Deterministic: no second thread is involved.
    pub fn create_pipe_file(&mut self, rel: &str, bytes: &[u8]) -> bool {
        use std::io::Write;
        use std::os::fd::AsRawFd;
        if bytes.len() > 60_000 || !Path::new("/proc/self/fd").is_dir() {
            self.create(rel, bytes);
            return false;
        }
        let Ok((rx, mut tx)) = std::io::pipe() else {
            self.create(rel, bytes);
            return false;
        };
        if tx.write_all(bytes).is_err() {
            self.create(rel, bytes);
            return false;
        }
        drop(tx);
        let p = self.root.join(rel);
        if let Some(parent) = p.parent() {
            std::fs::create_dir_all(parent).expect("simdir: mkdir");
        }
        let _ = std::fs::remove_file(&p);
        std::os::unix::fs::symlink(format!("/proc/self/fd/{}", rx.as_raw_fd()), &p).expect("simdir: symlink to pipe");
        self.pipes.push(rx);
        self.syscalls += 5;
        true
    }
    /// kind 0: regular file, 1: symbolic link to a regular file, 2: pipe
    pub fn create_kind(&mut self, rel: &str, bytes: &[u8], kind: u8) {
        match kind % 3 {
            1 => self.create_link(rel, bytes),
            2 => {
                self.create_pipe_file(rel, bytes);
            }
            _ => self.create(rel, bytes),
        }
    }
    fn store(&self) -> PathBuf {
        let mut name = self.root.file_name().map(|n| n.to_os_string()).unwrap_or_default();
        name.push("-store");
        self.root.with_file_name(name)
    }
    /// overwrite in place (keeps the position in the listing)
    pub fn overwrite(&mut self, rel: &str, bytes: &[u8]) {
        std::fs::write(self.root.join(rel), bytes).expect("simdir: overwrite");
        self.syscalls += 1;
    }
    /// overwrite in place and put the modification time back to what it was (what `cp -p`, `rsync -t`, an archive tool or
    /// two writes within one tick of a coarse file-system clock leave behind): whoever validates a cache by mtime - or by
    /// mtime and length - does not see the change
    pub fn overwrite_keep_mtime(&mut self, rel: &str, bytes: &[u8]) {
        let p = self.root.join(rel);
        let old = std::fs::metadata(&p).and_then(|m| m.modified()).ok();
        std::fs::write(&p, bytes).expect("simdir: overwrite");
        if let Some(t) = old {
            if let Ok(f) = std::fs::OpenOptions::new().write(true).open(&p) {
                let _ = f.set_modified(t);
            }
        }
        self.syscalls += 3;
    }
    /// Moves the directory `rel` (with everything in it) so deep below its parent that its path is longer than PATH_MAX:
    /// `<parent>/deep/<200 x 'a'>/.../<200 x 'b'>/.../<name>`. Two renames whose arguments are both short enough do it.
    /// Whoever walks the tree by path names meets a directory it cannot list (ENAMETOOLONG) - the one listing error
    /// that can be provoked on demand by a process running as root. Returns false (nothing changed) if it did not work.
    pub fn bury(&mut self, rel: &str) -> bool {
        let src = self.root.join(rel);
        let Some(parent) = src.parent().map(|p| p.to_path_buf()) else { return false };
        let Some(name) = src.file_name().map(|n| n.to_os_string()) else { return false };
        if !src.is_dir() {
            return false;
        }
        let comp_a = "a".repeat(200);
        let comp_b = "b".repeat(200);
        // chain A below the parent, chain B in a staging directory next to the root; each about 2400 bytes long
        let mut a_end = parent.join("deep");
        while a_end.as_os_str().len() < 2400 {
            a_end = a_end.join(&comp_a);
        }
        let stage = self.holder.with_file_name(format!("{}-bury", self.holder.file_name().map(|n| n.to_string_lossy().into_owned()).unwrap_or_default()));
        let b_top = stage.join("b0");
        let mut b_end = b_top.clone();
        while b_end.as_os_str().len() < 2400 {
            b_end = b_end.join(&comp_b);
        }
        let ok = std::fs::create_dir_all(&a_end).is_ok() && std::fs::create_dir_all(&b_end).is_ok() && std::fs::rename(&src, b_end.join(&name)).is_ok() && std::fs::rename(&b_top, a_end.join("b0")).is_ok();
        let _ = std::fs::remove_dir_all(&stage);
        self.syscalls += 6;
        ok
    }
    pub fn remove(&mut self, rel: &str) {
        let _ = std::fs::remove_file(self.root.join(rel));
        self.syscalls += 1;
    }
    pub fn read(&self, rel: &str) -> Option<Vec<u8>> {
        std::fs::read(self.root.join(rel)).ok()
    }
    /// the order in which the OS lists the directory right now (file names, top level only)
    pub fn listing(&mut self) -> Vec<String> {
        self.syscalls += 1;
        std::fs::read_dir(&self.root).expect("simdir: read_dir").map(|e| e.expect("simdir: entry").file_name().to_string_lossy().into_owned()).collect()
    }
    /// all files below the root, relative paths, sorted
    pub fn tree(&self) -> Vec<(String, Vec<u8>)> {
        fn walk(root: &Path, dir: &Path, out: &mut Vec<(String, Vec<u8>)>) {
            if let Ok(rd) = std::fs::read_dir(dir) {
                for e in rd.flatten() {
                    let p = e.path();
                    if p.is_dir() {
                        walk(root, &p, out);
                    } else if let Ok(b) = std::fs::read(&p) {
                        out.push((p.strip_prefix(root).unwrap().to_string_lossy().into_owned(), b));
                    }
                }
            }
        }
        let mut out = vec![];
        walk(&self.root, &self.root, &mut out);
        out.sort();
        out
    }
}

impl Drop for SimDir {
    fn drop(&mut self) {
        let _ = std::fs::remove_dir_all(self.store());
        let _ = std::fs::remove_dir_all(&self.root);
        let _ = std::fs::remove_dir_all(&self.holder);
    }
}
