//! C14 - nesting renames classes identically in jars and in mappings.
//! Seams: the jar source (`SimJar`: zip over a `SimReader`), the nests table bytes (`Nests::read`).
//! Oracle: `refnest` (independent reference nesting model) over `refclass::Sem` and `refmap::MapSet`.

use crate::bridge::to_quill;
use crate::c14_gen::{gen_plan, Plan};
use crate::c14_jar::*;
use crate::engine::*;
use crate::refmap::{MapSet, UNDECODABLE};
use crate::refnest::*;
use crate::rng::{Digest, Rng};
use crate::simio::*;
use crate::simjar::{build_jar, open_entries, EntryData, LazyJar, SimJar};
use duke::tree::class::{InnerClassFlags, ObjClassName};
use duke::tree::method::{MethodDescriptor, MethodName, MethodNameAndDesc};
use dukebox::storage::{ClassRepr, IsClass, JarEntryEnum, ParsedJar};
use dukenest::nest::{Nest, NestType, Nests};
use java_string::JavaString;
use quill::tree::mappings::Mappings;
use refclass::{JStr, Sem};
use serde_json::json;
use std::collections::{BTreeMap, BTreeSet};
use std::marker::PhantomData;

pub struct C14;
#[derive(Clone, Debug)]
pub struct SrcNs;
#[derive(Clone, Debug)]
pub struct DstNs;
type Q = Mappings<2, (SrcNs, DstNs)>;

// ------------------------------------------------------------------------------------------------
// plan -> concrete inputs

/// jar bytes and the entries they were assembled from
pub fn jar_bytes(p: &Plan) -> Result<(Vec<u8>, Vec<(String, EntryData)>), String> {
    let mut entries: Vec<(String, EntryData)> = vec![];
    for c in &p.classes {
        let sem = build_class(c);
        let enc = refclass::encode(&sem, &layout_of(c)).map_err(|e| format!("encode {}: {e}", c.name))?;
        entries.push((format!("{}.class", c.name), EntryData::File(enc.bytes)));
    }
    entries.extend(p.others.iter().cloned());
    if p.entry_order != 0 {
        Rng::new(p.entry_order).shuffle(&mut entries);
    }
    Ok((build_jar(&entries, p.deflate), entries))
}

fn ref_input(entries: &[(String, EntryData)]) -> Result<Vec<(String, RefEntry)>, String> {
    let mut v = vec![];
    for (n, e) in entries {
        v.push((
            n.clone(),
            match e {
                EntryData::Dir => RefEntry::Dir,
                EntryData::File(b) if n.ends_with(".class") => RefEntry::Class(Box::new(refclass::parse(b).map_err(|e| format!("{n}: {}", e.what))?)),
                EntryData::File(b) => RefEntry::Other(b.clone()),
            },
        ));
    }
    Ok(v)
}

fn js(s: &str) -> JavaString {
    JavaString::from(s.to_string())
}
fn s_of(x: &impl AsRef<java_string::JavaStr>) -> String {
    x.as_ref().as_str_lossy().into_owned()
}

fn to_real<A>(t: &[NestM]) -> anyhow::Result<Nests<A>> {
    let mut all = indexmap::IndexMap::new();
    for n in t {
        let nest = Nest {
            nest_type: match n.kind {
                Kind::Anonymous => NestType::Anonymous,
                Kind::Inner => NestType::Inner,
                Kind::Local => NestType::Local,
            },
            class_name: ObjClassName::try_from(js(&n.class))?,
            encl_class_name: ObjClassName::try_from(js(&n.encl))?,
            encl_method: match &n.method {
                Some((a, b)) => Some(MethodNameAndDesc { name: MethodName::try_from(js(a))?, desc: MethodDescriptor::try_from(js(b))? }),
                None => None,
            },
            inner_name: ObjClassName::try_from(js(&n.inner))?,
            inner_access: InnerClassFlags::from(n.access),
        };
        all.insert(nest.class_name.clone(), nest);
    }
    Ok(Nests { phantom: PhantomData, all })
}

fn from_real<A>(n: &Nests<A>) -> Vec<NestM> {
    n.all
        .values()
        .map(|x| NestM {
            kind: match x.nest_type {
                NestType::Anonymous => Kind::Anonymous,
                NestType::Inner => Kind::Inner,
                NestType::Local => Kind::Local,
            },
            class: s_of(&x.class_name),
            encl: s_of(&x.encl_class_name),
            method: x.encl_method.as_ref().map(|m| (s_of(&m.name), s_of(&m.desc))),
            inner: s_of(&x.inner_name),
            access: u16::from(x.inner_access),
        })
        .collect()
}

fn to_q(m: &MapSet, order: u64) -> anyhow::Result<Q> {
    let mut r = Rng::new(order);
    let q = to_quill::<2>(m, if order == 0 { None } else { Some(&mut r) })?;
    let mut out = Q::from_namespaces([m.ns[0].as_str(), m.ns[1].as_str()])?;
    out.classes = q.classes;
    out.javadoc = q.javadoc;
    Ok(out)
}

// ------------------------------------------------------------------------------------------------
// observing a nested jar

#[derive(Clone, PartialEq, Eq)]
enum Obs {
    Dir,
    Class(Vec<u8>),
    Other(Vec<u8>),
}

/// entries by name; class entries as the bytes `duke::write_class` gives (what `put_to_file` would store)
fn observe(j: &ParsedJar<ClassRepr, Vec<u8>>) -> Result<BTreeMap<String, Obs>, Violation> {
    let mut m = BTreeMap::new();
    for (name, e) in &j.entries {
        let o = match &e.content {
            JarEntryEnum::Dir => Obs::Dir,
            JarEntryEnum::Other(b) => Obs::Other(b.clone()),
            JarEntryEnum::Class(c) => match no_panic(|| IsClass::write(c).map(|b| b.as_ref().to_vec())) {
                Ok(Ok(b)) => Obs::Class(b),
                Ok(Err(e)) => return Err(Violation::new("T0", "invalid-output", "jar.write_class", format!("{name}: {e:#}"))),
                Err(pm) => return Err(Violation::new("T0", "panic", format!("jar.write_class:{}", panic_path(&pm)), format!("{name}: {pm}"))),
            },
        };
        m.insert(name.clone(), o);
    }
    Ok(m)
}

fn digest_obs(d: &mut Digest, o: &BTreeMap<String, Obs>) {
    for (n, e) in o {
        d.str(n);
        match e {
            Obs::Dir => d.u64(0),
            Obs::Class(b) => {
                d.u64(1);
                d.bytes(b)
            }
            Obs::Other(b) => {
                d.u64(2);
                d.bytes(b)
            }
        }
    }
}

fn clear_family(s: &mut Sem, fam: &str) {
    match fam {
        "frame" => s.methods.iter_mut().filter_map(|m| m.code.as_mut()).for_each(|c| c.frames.clear()),
        "local_var" => s.methods.iter_mut().filter_map(|m| m.code.as_mut()).for_each(|c| {
            c.local_vars.clear();
            c.local_var_types.clear()
        }),
        "unknown" => {
            s.unknown.clear();
            s.fields.iter_mut().for_each(|f| f.unknown.clear());
            for m in &mut s.methods {
                m.unknown.clear();
                if let Some(c) = &mut m.code {
                    c.unknown.clear();
                }
            }
            if let Some(r) = &mut s.record {
                r.iter_mut().for_each(|c| c.unknown.clear());
            }
        }
        "record" => s.record = None,
        "param_annotations" => s.methods.iter_mut().for_each(|m| m.parameter_annotations = Default::default()),
        "signature" => {
            s.signature = None;
            s.fields.iter_mut().for_each(|f| f.signature = None);
            s.methods.iter_mut().for_each(|m| m.signature = None);
            if let Some(r) = &mut s.record {
                r.iter_mut().for_each(|c| c.signature = None);
            }
        }
        "module" => {
            s.module = None;
            s.module_packages = None;
            s.module_main_class = None;
        }
        _ => {}
    }
}

fn index_of(seg: &str) -> Option<usize> {
    seg.split_once('[')?.1.split_once(']')?.0.parse().ok()
}

/// All differences between two classes, one path per *family*: after each reported path the differing part is made
/// equal on both sides and the comparison continues (a known loss must not hide a different defect behind it).
fn diff_all(want: &Sem, got: &Sem) -> Vec<String> {
    let (mut w, mut g) = (want.clone(), got.clone());
    let mut out = vec![];
    for _ in 0..24 {
        let Some(p) = w.diff(&g) else { break };
        out.push(p.clone());
        let fam = if p.contains(".code.frame") {
            "frame"
        } else if p.contains(".code.local_var") {
            "local_var"
        } else if p.contains("unknown") {
            "unknown"
        } else if p.starts_with("record_component") {
            "record"
        } else if p.contains("parameter_annotations") {
            "param_annotations"
        } else if p.contains("signature") {
            "signature"
        } else if p.starts_with("module") {
            "module"
        } else {
            ""
        };
        if !fam.is_empty() {
            clear_family(&mut w, fam);
            clear_family(&mut g, fam);
            continue;
        }
        let first = p.split('.').next().unwrap_or("");
        let head = first.split('[').next().unwrap_or("");
        match head {
            "method" | "field" if first.contains('[') => {
                let Some(i) = index_of(first) else { break };
                if head == "method" && i < w.methods.len() && i < g.methods.len() {
                    g.methods[i] = w.methods[i].clone();
                } else if head == "field" && i < w.fields.len() && i < g.fields.len() {
                    g.fields[i] = w.fields[i].clone();
                } else {
                    break;
                }
            }
            "minor" => g.minor = w.minor,
            "major" => g.major = w.major,
            "access" => g.access = w.access,
            "this_class" => g.this_class = w.this_class.clone(),
            "super_class" => g.super_class = w.super_class.clone(),
            "interface" => g.interfaces = w.interfaces.clone(),
            "source_file" => g.source_file = w.source_file.clone(),
            "source_debug_extension" => g.source_debug_extension = w.source_debug_extension.clone(),
            "inner_class" => g.inner_classes = w.inner_classes.clone(),
            "enclosing_method" => g.enclosing_method = w.enclosing_method.clone(),
            "synthetic" => g.synthetic = w.synthetic,
            "deprecated" => g.deprecated = w.deprecated,
            "annotations" => g.annotations = w.annotations.clone(),
            "type_annotations" => g.type_annotations = w.type_annotations.clone(),
            "nest_host" => g.nest_host = w.nest_host.clone(),
            "nest_member" => g.nest_members = w.nest_members.clone(),
            "permitted_subclass" => g.permitted_subclasses = w.permitted_subclasses.clone(),
            _ => break,
        }
    }
    out
}

/// first differing line of the two normalised listings (detail text only)
fn first_dump_diff(w: &Sem, g: &Sem) -> String {
    let (a, b) = (refclass::dump::dump(w), refclass::dump::dump(g));
    let (mut la, mut lb) = (a.lines(), b.lines());
    loop {
        match (la.next(), lb.next()) {
            (Some(x), Some(y)) if x == y => continue,
            (None, None) => return "listings equal".into(),
            (x, y) => return format!("expected line {:?}, got {:?}", x.unwrap_or("<end>").trim(), y.unwrap_or("<end>").trim()),
        }
    }
}

fn sort_inner(s: &mut Sem) {
    if let Some(v) = &mut s.inner_classes {
        v.sort_by(|a, b| (&a.inner, &a.outer, &a.inner_name, a.access).cmp(&(&b.inner, &b.outer, &b.inner_name, b.access)));
    }
}

/// kinds of structural problems of a class. `version-feature` notes are left out: nesting changes neither versions nor
/// instructions (both are compared through `Sem`), and the note depends on the encoding variant (`ret` vs `wide ret`).
fn validator_prefixes(bytes: &[u8]) -> BTreeSet<String> {
    match refclass::validate(bytes) {
        Ok(()) => BTreeSet::new(),
        Err(v) => v.iter().map(|m| refclass::validate::prefix(m).to_string()).filter(|p| p != "version-feature").collect(),
    }
}

struct Judge<'a> {
    tier: &'a str,
    /// class of a content difference ("semantic-mismatch" at T0, "reader-ok-with-wrong-data" at T2)
    class: &'a str,
    stage: String,
}

/// Compares an observed nested jar with the reference result.
fn judge_jar(j: &Judge, real: &BTreeMap<String, Obs>, reference: &RefNested, input: &[(String, EntryData)], st: &mut RunStats, out: &mut Vec<Violation>) {
    let stage = &j.stage;
    // validator findings the input classes already have (only new kinds of problems count)
    let mut input_prefixes: BTreeSet<String> = BTreeSet::new();
    for (n, e) in input {
        if let (true, EntryData::File(b)) = (n.ends_with(".class"), e) {
            input_prefixes.extend(validator_prefixes(b));
        }
    }
    for (name, want) in &reference.entries {
        let Some(got) = real.get(name) else {
            let what = if matches!(want, RefEntry::Class(_)) { "missing-class" } else { "missing-entry" };
            out.push(Violation::new(j.tier, j.class, format!("{stage}.entries.{what}"), format!("{name:?} is not in the output; it holds {:?}", real.keys().collect::<Vec<_>>())));
            continue;
        };
        match (want, got) {
            (RefEntry::Dir, Obs::Dir) => {}
            (RefEntry::Other(a), Obs::Other(b)) => {
                if a != b {
                    out.push(Violation::new(j.tier, j.class, format!("{stage}.other.content"), format!("{name:?} changed")));
                }
            }
            (RefEntry::Class(w), Obs::Class(bytes)) => {
                match refclass::parse(bytes) {
                    Err(e) => {
                        out.push(Violation::new(j.tier, "invalid-output", format!("{stage}.parse.{}", refclass::validate::prefix(&e.what)), format!("{name}: {} at {}", e.what, e.offset)));
                        continue;
                    }
                    Ok(mut g) => {
                        let mut w = (**w).clone();
                        sort_inner(&mut w);
                        sort_inner(&mut g);
                        let excerpt = first_dump_diff(&w, &g);
                        for (k, p) in diff_all(&w, &g).into_iter().enumerate() {
                            let more = if k == 0 { format!("; {excerpt}") } else { String::new() };
                            out.push(Violation::new(j.tier, j.class, format!("{stage}.class.{p}"), format!("{name}: first difference of this kind at {p}{more}")));
                        }
                    }
                }
                for p in validator_prefixes(bytes) {
                    if !input_prefixes.contains(&p) {
                        out.push(Violation::new(j.tier, "invalid-output", format!("{stage}.validate.{p}"), format!("{name}: {:?}", refclass::validate(bytes).err().unwrap_or_default().into_iter().find(|m| refclass::validate::prefix(m) == p))));
                    }
                }
            }
            _ => out.push(Violation::new(j.tier, j.class, format!("{stage}.entries.kind"), format!("{name:?} changed its kind"))),
        }
    }
    let mut explained: BTreeSet<String> = BTreeSet::new();
    for name in &reference.created {
        let mut got = real.get(name);
        if got.is_none() {
            // the class exists, but under an entry name that is not `<class name>.class`
            let bare = name.strip_suffix(".class").unwrap_or(name);
            if let Some(o @ Obs::Class(_)) = real.get(bare) {
                out.push(Violation::new(j.tier, j.class, format!("{stage}.created.entry-name-without-class-suffix"), format!("the created enclosing class is stored as entry {bare:?}, not {name:?}")));
                explained.insert(bare.to_string());
                got = Some(o);
            }
        }
        match got {
            Some(Obs::Class(bytes)) => {
                st.probe("enclosing_class_created");
                match refclass::parse(bytes) {
                    Ok(g) => {
                        if format!("{}.class", g.this_class.to_str().unwrap_or_default()) != *name {
                            out.push(Violation::new(j.tier, j.class, format!("{stage}.created.this_class"), format!("{name}: this_class is {}", g.this_class)));
                        }
                    }
                    Err(e) => out.push(Violation::new(j.tier, "invalid-output", format!("{stage}.created.parse.{}", refclass::validate::prefix(&e.what)), format!("{name}: {}", e.what))),
                }
                for p in validator_prefixes(bytes) {
                    if !input_prefixes.contains(&p) {
                        out.push(Violation::new(j.tier, "invalid-output", format!("{stage}.created.validate.{p}"), name.clone()));
                    }
                }
            }
            _ => out.push(Violation::new(j.tier, j.class, format!("{stage}.created.missing"), format!("the missing enclosing class {name:?} was not created; output holds {:?}", real.keys().collect::<Vec<_>>()))),
        }
    }
    for name in real.keys() {
        if !reference.entries.contains_key(name) && !reference.created.contains(name) && !explained.contains(name) {
            if reference.tolerated.contains(name) || reference.tolerated.contains(&format!("{name}.class")) {
                st.probe("created_for_unapplied_nest");
            } else {
                out.push(Violation::new(j.tier, j.class, format!("{stage}.entries.unexpected"), format!("{name:?} is in the output but nothing explains it")));
            }
        }
    }
}

/// stable identity of a refusal: the root cause with everything input-specific (digits, quoted text) removed
fn refusal_slug(e: &anyhow::Error) -> String {
    let root = e.root_cause().to_string();
    let mut out = String::new();
    let mut quoted = false;
    for c in root.chars() {
        if c == '"' {
            quoted = !quoted;
            continue;
        }
        if quoted || c.is_ascii_digit() {
            continue;
        }
        if c.is_ascii_alphabetic() {
            out.push(c.to_ascii_lowercase());
        } else if !out.ends_with('-') {
            out.push('-');
        }
        if out.len() >= 60 {
            break;
        }
    }
    out.trim_matches('-').to_string()
}

fn call_nest_jar(jar: &impl dukebox::storage::Jar, nests: &Nests<SrcNs>) -> Result<anyhow::Result<ParsedJar<ClassRepr, Vec<u8>>>, String> {
    let n = nests.clone();
    no_panic(|| dukenest::nest_jar(true, jar, n))
}

impl Engine for C14 {
    type Plan = Plan;
    fn id(&self) -> &'static str {
        "C14"
    }
    fn runs(&self, tier: Tier) -> u64 {
        match tier {
            Tier::Quick => 30_000,
            Tier::Thorough => 1_500_000,
        }
    }
    fn gen(&self, rng: &mut Rng, tier: Tier, _run: u64) -> Plan {
        gen_plan(rng, tier)
    }

    fn exec(&self, p: &Plan, st: &mut RunStats) -> Vec<Violation> {
        // in one run of twenty (a function of the plan, so that it replays): a class write that fails inside an attribute
        // body is made on this thread first - what it leaves behind must not show in the classes nest_jar writes
        if p.map_order % 20 == 7 && crate::c02::poison_write() {
            st.probe("poison_write_first");
        }
        let mut out: Vec<Violation> = vec![];
        let mut obs = Digest::new();
        let (jar, entries) = match jar_bytes(p) {
            Ok(x) => x,
            Err(e) => {
                st.notes.push(format!("harness: {e}"));
                st.probe("harness.encode_failed");
                return out;
            }
        };
        let input = match ref_input(&entries) {
            Ok(x) => x,
            Err(e) => {
                st.notes.push(format!("harness: reference cannot parse its own class: {e}"));
                st.probe("harness.parse_failed");
                return out;
            }
        };
        {
            let mut d = Digest::new();
            d.u64(p.classes.len() as u64);
            d.u64(p.nests.len() as u64);
            for n in &p.nests {
                d.u64(n.kind as u64);
                d.u64(n.method.is_some() as u64);
            }
            d.u64(p.m.shape());
            d.u64(jar.len() as u64 / 64);
            st.shape = d.0;
        }

        if cyclic_class(&table_map(&p.nests)).is_some() {
            st.probe("harness.cyclic_table_skipped");
            return out;
        }
        // ================= T0: the table
        st.tier("T0");
        let table: Vec<NestM> = table_map_ordered(&p.nests);
        let mut text: Option<Vec<u8>> = None;
        let nests: Nests<SrcNs> = match &p.via_text {
            Some(style) => {
                let t = write_nests_text(&p.nests, style).into_bytes();
                text = Some(t.clone());
                st.probe("table.via_text");
                // the reference reading of the text is the table (checks writer and reference reader against each other)
                match read_nests_text(&t) {
                    Ok(r) if table_diff(&table, &r).is_none() => {}
                    other => {
                        st.notes.push(format!("harness: reference reader disagrees with the plan: {other:?}"));
                        st.probe("harness.text_model_mismatch");
                        return out;
                    }
                }
                match no_panic(|| Nests::<SrcNs>::read(&t)) {
                    Ok(Ok(n)) => {
                        if let Some((path, d)) = table_diff(&table, &from_real(&n)) {
                            out.push(Violation::new("T0", "semantic-mismatch", format!("read.{path}"), d));
                        }
                        n
                    }
                    Ok(Err(e)) => {
                        out.push(Violation::new("T0", "refused-wellformed", "read", format!("{e:#}")));
                        match to_real(&table) {
                            Ok(n) => n,
                            Err(_) => return out,
                        }
                    }
                    Err(pm) => {
                        out.push(Violation::new("T0", "panic", format!("read:{}", panic_path(&pm)), pm));
                        return out;
                    }
                }
            }
            None => {
                st.probe("table.in_memory");
                match to_real(&table) {
                    Ok(n) => n,
                    Err(e) => {
                        st.notes.push(format!("harness: table not admissible: {e:#}"));
                        st.probe("harness.table_inadmissible");
                        return out;
                    }
                }
            }
        };

        // ================= T0: the jar
        let reference = nest_jar_ref(&input, &table);
        let tm = table_map(&table);
        {
            let sems: Vec<&Sem> = input.iter().filter_map(|(_, e)| if let RefEntry::Class(s) = e { Some(&**s) } else { None }).collect();
            let facts = JarFacts::of(&sems);
            for n in tm.values() {
                match rejection(n, &facts) {
                    Some(why) => st.probe(why),
                    None => {
                        st.probe(match n.kind {
                            Kind::Anonymous => "nest.applied.anonymous",
                            Kind::Inner => "nest.applied.inner",
                            Kind::Local => "nest.applied.local",
                        });
                        st.probe(match chain_depth(&reference.applied, &n.class) {
                            1 => "chain.depth1",
                            2 => "chain.depth2",
                            3 => "chain.depth3",
                            _ => "chain.depth4plus",
                        });
                        if !facts.present(&n.encl) {
                            st.probe("nest.missing_enclosing_class");
                        }
                        let simple = simple_name_of_inner(&n.inner);
                        if n.kind != Kind::Anonymous {
                            st.probe(if n.class.ends_with(simple) { "inner_name.derived" } else { "inner_name.custom" });
                        }
                        if n.method.is_some() && n.kind == Kind::Inner {
                            st.probe("nest.inner_names_undeclared_method");
                        }
                    }
                }
            }
            if reference.created_is_listed {
                st.probe("corner.created_enclosing_is_listed");
            }
        }
        let sj = SimJar::new(jar.clone(), &IoPlan::plain());
        let t0_obs: Option<BTreeMap<String, Obs>> = match call_nest_jar(&sj, &nests) {
            Ok(Ok(res)) => match observe(&res) {
                Ok(o) => {
                    digest_obs(&mut obs, &o);
                    if let Ok(dir) = std::env::var("C14_DUMP") {
                        // debugging aid only: writes files, influences nothing
                        let _ = std::fs::create_dir_all(&dir);
                        for (n, e) in &entries {
                            if let EntryData::File(b) = e {
                                let _ = std::fs::write(format!("{dir}/in-{}", n.replace('/', "_")), b);
                            }
                        }
                        for (n, e) in &o {
                            if let Obs::Class(b) = e {
                                let _ = std::fs::write(format!("{dir}/out-{}", n.replace('/', "_")), b);
                            }
                        }
                    }
                    st.probe("t0.nest_jar_ok");
                    if reference.created_is_listed {
                        // under-determined (see assumptions): the names are not judged. One thing the property does decide
                        // even here: "creates enclosing classes that are missing" - a class that came out under a new
                        // name records its enclosing class (own InnerClasses entry with an outer class), and that class has to be an entry of the nested jar (missed seeded change C14-9)
                        st.probe("corner.created_enclosing_is_listed.not_judged");
                        for (name, e) in &o {
                            let (Obs::Class(b), Some(stem)) = (e, name.strip_suffix(".class")) else { continue };
                            if entries.iter().any(|(n, _)| n == name) {
                                continue;
                            }
                            let Ok(sem) = refclass::parse(b) else { continue };
                            let this = JStr::from_str(stem);
                            // (an EnclosingMethod attribute may have been there before and name a class outside the jar: only
                            // the InnerClasses entry under the NEW name is certainly the nester's)
                            let enclosing: Vec<JStr> = sem.inner_classes.iter().flatten().filter(|ic| ic.inner == this).filter_map(|ic| ic.outer.clone()).collect();
                            for encl in enclosing {
                                let want = format!("{}.class", encl.to_str().unwrap_or_else(|| encl.to_string_lossy()));
                                if !o.contains_key(&want) {
                                    out.push(Violation::new("T0", "semantic-mismatch", "jar.enclosing-class-of-nested-class.missing", format!("{name} records the enclosing class {want}, which is not in the nested jar")));
                                }
                            }
                        }
                    } else {
                        let j = Judge { tier: "T0", class: "semantic-mismatch", stage: "jar".into() };
                        judge_jar(&j, &o, &reference, &entries, st, &mut out);
                    }
                    // JVMS 4.7.6 also asks the enclosing class to list its members; the property does not: counted only
                    for (old, n) in &reference.applied {
                        let new = &reference.names[old];
                        let encl_new = reference.names.get(&n.encl).cloned().unwrap_or_else(|| n.encl.clone());
                        if let Some(Obs::Class(b)) = o.get(&format!("{encl_new}.class")) {
                            if let Ok(s) = refclass::parse(b) {
                                let has = s.inner_classes.as_ref().is_some_and(|v| v.iter().any(|ic| ic.inner.to_str().as_deref() == Some(new.as_str())));
                                st.probe(if has { "jvms.enclosing_lists_member" } else { "jvms.enclosing_does_not_list_member" });
                            }
                        }
                    }
                    Some(o)
                }
                Err(v) => {
                    out.push(v);
                    None
                }
            },
            Ok(Err(e)) => {
                if p.classes.is_empty() {
                    st.probe("jar.no_classes_refused");
                } else {
                    st.probe("t0.nest_jar_refused");
                    if std::env::var("C14_DEBUG").is_ok() {
                        eprintln!("REFUSED {}", refusal_slug(&e));
                    }
                    out.push(Violation::new("T0", "refused-wellformed", format!("nest_jar.{}", refusal_slug(&e)), format!("{e:#}")));
                }
                None
            }
            Err(pm) => {
                out.push(Violation::new("T0", "panic", format!("nest_jar:{}", panic_path(&pm)), pm));
                None
            }
        };
        sj.report(st);

        // ================= T0: mappings (no seam; second half of the agreement relation)
        let mut real_applied: Option<MapSet> = None;
        let translated_cyclic = remap_table(&table, &p.m).is_ok_and(|tt| cyclic_class(&table_map(&tt)).is_some());
        match to_q(&p.m, p.map_order) {
            _ if translated_cyclic => {
                // the table translated into the target namespace has a cycle (target names colliding): the code recurses
                // without bound on it, which would abort the whole process; not quantified by the property
                st.probe("harness.cyclic_translated_table_skipped");
            }
            Err(e) => {
                st.notes.push(format!("harness: mapping set not admissible: {e:#}"));
                st.probe("harness.mapset_inadmissible");
            }
            Ok(q) => {
                let want_applied = apply_to_mapset(&p.m, &table);
                match no_panic(|| dukenest::apply_nests_to_mappings(q.clone(), &nests)) {
                    Ok(Ok(r)) => match crate::bridge::from_quill(&r) {
                        Ok(got) => {
                            obs.str(&serde_json::to_string(&got).unwrap_or_default());
                            st.probe("checked.apply");
                            if let Some((path, d)) = without_target_class_names(&want_applied).diff_path(&without_target_class_names(&got)) {
                                out.push(Violation::new("T0", "semantic-mismatch", format!("apply.{path}"), d));
                            }
                            // not demanded, only counted: target names nested the way the translated table says
                            if let Ok(tt) = remap_table(&table, &p.m) {
                                let tr = translation(&table_map(&tt));
                                let follows = p.m.classes.iter().all(|(k, c)| {
                                    let Some(Some(d)) = c.names.first() else { return true };
                                    let nk = translation(&tm).get(k).cloned().unwrap_or_else(|| k.clone());
                                    got.classes.get(&nk).is_some_and(|g| g.names.first().cloned().flatten().as_deref() == Some(tr.get(d).map_or(d.as_str(), |x| x.as_str())))
                                });
                                st.probe(if follows { "apply.target_names_follow_translated_table" } else { "apply.target_names_differ_from_translated_table" });
                            }
                            // undo . apply = identity on source names and descriptors
                            match no_panic(|| dukenest::undo_nests_to_mappings(r, &nests)) {
                                Ok(Ok(u)) => match crate::bridge::from_quill(&u) {
                                    Ok(back) => {
                                        st.probe("checked.undo_apply_identity");
                                        if let Some((path, d)) = without_target_class_names(&p.m).diff_path(&without_target_class_names(&back)) {
                                            out.push(Violation::new("T0", "semantic-mismatch", format!("undo-apply.{path}"), d));
                                        }
                                    }
                                    Err(e) => out.push(Violation::new("T0", "invalid-output", "undo.inconsistent", format!("{e:#}"))),
                                },
                                Ok(Err(e)) => out.push(Violation::new("T0", "refused-wellformed", "undo", format!("{e:#}"))),
                                Err(pm) => out.push(Violation::new("T0", "panic", format!("undo:{}", panic_path(&pm)), pm)),
                            }
                            real_applied = Some(got);
                        }
                        Err(e) => out.push(Violation::new("T0", "invalid-output", "apply.inconsistent", format!("{e:#}"))),
                    },
                    Ok(Err(e)) => out.push(Violation::new("T0", "refused-wellformed", "apply", format!("{e:#}"))),
                    Err(pm) => out.push(Violation::new("T0", "panic", format!("apply:{}", panic_path(&pm)), pm)),
                }
                // undo alone, on the reference's nested set (independent of the real apply)
                if let Ok(qa) = to_q(&want_applied, p.map_order) {
                    match no_panic(|| dukenest::undo_nests_to_mappings(qa, &nests)) {
                        Ok(Ok(u)) => match crate::bridge::from_quill(&u) {
                            Ok(back) => {
                                st.probe("checked.undo");
                                if let Some((path, d)) = without_target_class_names(&p.m).diff_path(&without_target_class_names(&back)) {
                                    out.push(Violation::new("T0", "semantic-mismatch", format!("undo.{path}"), d));
                                }
                            }
                            Err(e) => out.push(Violation::new("T0", "invalid-output", "undo.inconsistent", format!("{e:#}"))),
                        },
                        Ok(Err(e)) => out.push(Violation::new("T0", "refused-wellformed", "undo", format!("{e:#}"))),
                        Err(pm) => out.push(Violation::new("T0", "panic", format!("undo:{}", panic_path(&pm)), pm)),
                    }
                }
                // translation of the table
                match remap_table(&table, &p.m) {
                    Err(_) => st.probe("remap_nests.underdetermined_skipped"),
                    Ok(want) => match no_panic(|| dukenest::remap_nests(&nests, &q)) {
                        Ok(Ok(r)) => {
                            st.probe("checked.remap_nests");
                            let got = from_real(&r);
                            obs.str(&serde_json::to_string(&got).unwrap_or_default());
                            if let Some((path, d)) = table_diff(&want, &got) {
                                out.push(Violation::new("T0", "semantic-mismatch", format!("remap_nests.{path}"), d));
                            }
                            for n in &want {
                                if n.class.contains("__") {
                                    st.probe("remap_nests.already_nested_target_name");
                                }
                            }
                        }
                        Ok(Err(e)) => out.push(Violation::new("T0", "refused-wellformed", "remap_nests", format!("{e:#}"))),
                        Err(pm) => out.push(Violation::new("T0", "panic", format!("remap_nests:{}", panic_path(&pm)), pm)),
                    },
                }
            }
        }

        // ================= agreement of the two real results (tables whose entries all apply to the jar)
        if let (Some(o), Some(ma)) = (&t0_obs, &real_applied) {
            if !tm.is_empty() && reference.applied.len() == tm.len() {
                st.probe("checked.jar_vs_mappings_agreement");
                let all = translation(&tm);
                let new = |c: &str| all.get(c).cloned().unwrap_or_else(|| c.to_string());
                let jar_classes: BTreeSet<String> = p.classes.iter().map(|c| c.name.clone()).collect();
                let both: BTreeSet<&String> = jar_classes.iter().filter(|c| p.m.classes.contains_key(*c)).collect();
                // names the jar gives to the classes only it has, and the created ones, are left out; same for the mappings
                let jar_only: BTreeSet<String> = jar_classes.iter().filter(|c| !p.m.classes.contains_key(*c)).map(|c| new(c)).collect();
                let map_only: BTreeSet<String> = p.m.classes.keys().filter(|c| !jar_classes.contains(*c)).map(|c| new(c)).collect();
                let a: BTreeSet<String> = o.iter().filter(|(_, e)| matches!(e, Obs::Class(_))).filter_map(|(n, _)| n.strip_suffix(".class").map(str::to_string)).filter(|n| !jar_only.contains(n) && !reference.created.contains(&format!("{n}.class")) && !reference.tolerated.contains(&format!("{n}.class"))).collect();
                let b: BTreeSet<String> = ma.classes.keys().filter(|n| !map_only.contains(*n)).cloned().collect();
                if a != b {
                    out.push(Violation::new("T0", "semantic-mismatch", "agreement.class-names", format!("{} classes are in jar and mappings; nested jar names them {:?}, nested mappings {:?}", both.len(), a.difference(&b).collect::<Vec<_>>(), b.difference(&a).collect::<Vec<_>>())));
                }
            }
        }

        // ================= T1 / T2: the jar through the simulated reader
        if !p.jar_io.is_plain() {
            let legal = p.jar_io.legal_only();
            let tier = if legal { "T1" } else { "T2" };
            st.tier(if legal { "T1" } else { "T2" });
            let sj = SimJar::new(jar.clone(), &p.jar_io);
            let res = call_nest_jar(&sj, &nests);
            sj.report(st);
            if sj.fuel_exhausted() {
                out.push(Violation::new(tier, "runaway", "nest_jar", "fuel exhausted"));
            }
            match res {
                Err(pm) => out.push(Violation::new(tier, "panic", format!("nest_jar:{}", panic_path(&pm)), pm)),
                Ok(Err(e)) => {
                    obs.u64(2);
                    if legal {
                        if t0_obs.is_some() {
                            out.push(Violation::new("T1", "schedule-dependence", "nest_jar.result", format!("legal short/interrupted reads made nest_jar fail: {e:#}")));
                        }
                    } else {
                        st.probe("t2.err_under_fault");
                    }
                }
                Ok(Ok(r)) => {
                    obs.u64(1);
                    match observe(&r) {
                        Err(mut v) => {
                            v.tier = tier.into();
                            if t0_obs.is_some() {
                                out.push(v);
                            }
                        }
                        Ok(o) => {
                            if legal {
                                if let Some(t0) = &t0_obs {
                                    if *t0 != o {
                                        let d = t0.iter().find(|(k, v)| o.get(*k) != Some(v)).map(|x| x.0.clone()).or_else(|| o.keys().find(|k| !t0.contains_key(*k)).cloned());
                                        out.push(Violation::new("T1", "schedule-dependence", "nest_jar.entries", format!("entry {d:?} differs from the plain-medium result")));
                                    }
                                } else {
                                    out.push(Violation::new("T1", "schedule-dependence", "nest_jar.result", "fails on the plain medium, succeeds under a legal schedule"));
                                }
                            } else {
                                // Ok under a fault: must be the reference result on what the medium delivered
                                let delivered = sj.delivered();
                                if delivered == jar {
                                    st.probe("t2.ok_fault_not_in_data");
                                    if let Some(t0) = &t0_obs {
                                        if *t0 != o {
                                            out.push(Violation::new("T2", "reader-ok-with-wrong-data", "jar-t2.entries", "Ok under a fault that left the data intact, but the result differs from the plain-medium result"));
                                        }
                                    }
                                } else {
                                    match open_entries(&delivered).map_err(|e| format!("{e:#}")).and_then(|e| ref_input(&e).map(|r| (e, r))) {
                                        Err(e) => {
                                            st.probe("t2.ok_on_delivered_the_reference_cannot_read");
                                            st.notes.push(e);
                                        }
                                        Ok((dent, dref)) => {
                                            let r2 = nest_jar_ref(&dref, &table);
                                            if r2.name_mismatch {
                                                st.probe("t2.delivered_entry_name_differs_from_class_name");
                                            } else if r2.created_is_listed {
                                                st.probe("corner.created_enclosing_is_listed.not_judged");
                                            } else {
                                                st.probe("t2.ok_on_damaged_jar_judged");
                                                let j = Judge { tier: "T2", class: "reader-ok-with-wrong-data", stage: "jar-t2".into() };
                                                let mut vs = vec![];
                                                judge_jar(&j, &o, &r2, &dent, st, &mut vs);
                                                // what already differs at T0 for the same reason is not a fault-handling defect
                                                let t0_paths: BTreeSet<String> = out.iter().filter(|v| v.tier == "T0").map(|v| abstract_indices(&v.path).replacen("jar", "jar-t2", 1)).collect();
                                                out.extend(vs.into_iter().filter(|v| !t0_paths.contains(&abstract_indices(&v.path))));
                                            }
                                        }
                                    }
                                }
                            }
                        }
                    }
                }
            }
            if !legal {
                // heal: the same call on the healthy medium gives the T0 answer
                let sj = SimJar::new(jar.clone(), &IoPlan::plain());
                let again = match call_nest_jar(&sj, &nests) {
                    Ok(Ok(r)) => observe(&r).ok(),
                    _ => None,
                };
                let same = match (&t0_obs, &again) {
                    (Some(a), Some(b)) => a == b,
                    (None, None) => true,
                    _ => false,
                };
                if !same {
                    out.push(Violation::new("T2", "residue-after-heal", "nest_jar", "the call on the healed medium differs from the first plain call"));
                }
            }
        }

        // ================= a multi-release copy: one class of the jar a second time, under `META-INF/versions/9/<name>.class`
        // (an entry whose name is not `<class name>.class`). Whatever name the copy comes back under: no other entry may
        // change or disappear because of it, and the copy itself has to come back (missed seeded change C14-16: result
        // entries named after the class they hold, so that the copy and the base class land on one name)
        if let (Some(t0), true) = (&t0_obs, p.map_order % 10 == 3) {
            let class_entries: Vec<&(String, EntryData)> = entries.iter().filter(|(n, d)| n.ends_with(".class") && matches!(d, EntryData::File(_))).collect();
            if !class_entries.is_empty() {
                let (cn, cd) = class_entries[(p.map_order as usize / 10) % class_entries.len()];
                let mut with_copy = entries.clone();
                with_copy.push((format!("META-INF/versions/9/{cn}"), cd.clone()));
                st.probe("multi_release_copy");
                let sj2 = SimJar::new(crate::simjar::build_jar(&with_copy, p.deflate), &IoPlan::plain());
                match call_nest_jar(&sj2, &nests) {
                    Err(pm) => out.push(Violation::new("T0", "panic", format!("nest_jar:{}", panic_path(&pm)), pm)),
                    Ok(Err(e)) => out.push(Violation::new("T0", "refused-wellformed", "nest_jar.multi-release-copy", format!("{e:#}"))),
                    Ok(Ok(res)) => {
                        if let Ok(o2) = observe(&res) {
                            let lost: Vec<&String> = t0.iter().filter(|(k, v)| o2.get(*k) != Some(v)).map(|x| x.0).collect();
                            if let Some(k) = lost.first() {
                                out.push(Violation::new("T0", "semantic-mismatch", "jar.multi-release-copy.other-entry-changed", format!("with a copy of {cn} under META-INF/versions/9/ in the jar, entry {k} of the result is missing or different")));
                            } else if o2.len() != t0.len() + 1 {
                                out.push(Violation::new("T0", "semantic-mismatch", "jar.multi-release-copy.entries.len", format!("{} entries with the copy, {} without: the copy did not come back as an entry of its own", o2.len(), t0.len())));
                            }
                        }
                    }
                }
            }
        }

        // ================= the entry-level seam: the same entries behind a LazyJar
        if let Some(lp) = &p.lazy {
            let lj = LazyJar::new(entries.clone(), lp);
            let res = call_nest_jar(&lj, &nests);
            lj.report(st);
            let failed = lj.failed() > 0;
            let tier = if failed { "T2" } else { "T1" };
            st.tier(if failed { "T2" } else { "T1" });
            obs.u64(0x1a2);
            match res {
                Err(pm) => out.push(Violation::new(tier, "panic", format!("nest_jar:{}", panic_path(&pm)), pm)),
                Ok(Err(e)) => {
                    obs.u64(2);
                    if failed {
                        st.probe("lazy.err_after_failed_entry_operation");
                    } else if t0_obs.is_some() {
                        out.push(Violation::new("T1", "schedule-dependence", "lazy.nest_jar.result", format!("fails on a jar that hands out its entries one by one although no entry operation failed: {e:#}")));
                    }
                }
                Ok(Ok(r)) => {
                    obs.u64(1);
                    // the data is intact whatever failed in between: an answer must be THE answer
                    // class entries handed out under other names: entries are compared by what they ARE (classes by
                    // their own name), since nothing says under which entry name an untouched class has to come back
                    let rekey = |m: &BTreeMap<String, Obs>| -> BTreeMap<String, Obs> {
                        m.iter()
                            .map(|(k, v)| match v {
                                Obs::Class(b) => (refclass::parse(b).ok().and_then(|s| s.this_class.to_str()).map(|n| format!("class {n}")).unwrap_or_else(|| k.clone()), v.clone()),
                                _ => (k.clone(), v.clone()),
                            })
                            .collect()
                    };
                    let t0_cmp = if lp.odd_names { t0_obs.as_ref().map(&rekey) } else { t0_obs.clone() };
                    match (observe(&r).map(|o| if lp.odd_names { rekey(&o) } else { o }), &t0_cmp) {
                        (Ok(o), Some(t0)) => {
                            if failed {
                                st.probe("lazy.ok_after_failed_entry_operation");
                            }
                            if *t0 != o {
                                let d = t0.iter().find(|(k, v)| o.get(*k) != Some(v)).map(|x| x.0.clone()).or_else(|| o.keys().find(|k| !t0.contains_key(*k)).cloned());
                                let (class, what) = if failed { ("reader-ok-with-wrong-data", "Ok although an entry operation failed, and") } else { ("schedule-dependence", "no entry operation failed, but") };
                                out.push(Violation::new(tier, class, "lazy.nest_jar.entries", format!("{what} entry {d:?} differs from the result on the zip-backed jar")));
                            }
                        }
                        (Ok(_), None) => out.push(Violation::new(tier, "schedule-dependence", "lazy.nest_jar.result", "fails on the zip-backed jar, succeeds on the entry-by-entry jar")),
                        (Err(mut v), t0) => {
                            v.tier = tier.into();
                            if t0.is_some() {
                                out.push(v);
                            }
                        }
                    }
                }
            }
        }

        // ================= T2: the table text, torn / flipped
        if let (Some(t), false) = (&text, p.text_faults.is_empty()) {
            st.tier("T2");
            let src = SimReader::new(t, &IoPlan { faults: p.text_faults.clone(), ..IoPlan::plain() });
            st.fired(&src.stats.fired);
            let delivered = src.delivered().to_vec();
            match no_panic(|| Nests::<SrcNs>::read(&delivered)) {
                Err(pm) => out.push(Violation::new("T2", "panic", format!("read:{}", panic_path(&pm)), pm)),
                Ok(Err(_)) => {
                    obs.u64(4);
                    st.probe("table.t2.err")
                }
                Ok(Ok(n)) => {
                    obs.u64(3);
                    match read_nests_text(&delivered) {
                        Ok(r) => {
                            st.probe("table.t2.ok_agrees_with_reference_reading");
                            if let Some((path, d)) = table_diff(&r, &from_real(&n)) {
                                out.push(Violation::new("T2", "reader-ok-with-wrong-data", format!("read.{path}"), d));
                            }
                        }
                        Err(e) if e.starts_with(UNDECODABLE) => out.push(Violation::new("T2", "reader-ok-on-undecodable-input", "read", format!("the delivered bytes are not UTF-8 text ({e}) but read returned Ok"))),
                        Err(_) => st.probe("table.t2.lenient_accept"),
                    }
                }
            }
        }
        st.obs = obs;
        if std::env::var("C14_DEBUG").is_ok() {
            for v in &out {
                eprintln!("IDENT {}", v.identity());
            }
            eprintln!("RUN {}", if out.is_empty() { "clean" } else { "violating" });
        }
        out
    }

    fn shrink(&self, p: &Plan) -> Vec<Plan> {
        let mut c: Vec<Plan> = vec![];
        macro_rules! cand {
            ($q:ident, $body:block) => {{
                let mut $q = p.clone();
                $body
                c.push($q);
            }};
        }
        if let Some(lp) = &p.lazy {
            cand!(q, { q.lazy = None; });
            for l in lp.smaller() {
                cand!(q, { q.lazy = Some(l.clone()); });
            }
        }
        for io in shrink_io(&p.jar_io) {
            cand!(q, { q.jar_io = io; });
        }
        for i in 0..p.text_faults.len() {
            cand!(q, { q.text_faults.remove(i); });
        }
        if !p.m.classes.is_empty() {
            cand!(q, { q.m.classes.clear(); });
        }
        if p.nests.len() > 2 {
            cand!(q, { q.nests.truncate(p.nests.len() / 2); });
            cand!(q, { q.nests.drain(..p.nests.len() / 2); });
        }
        for i in 0..p.nests.len() {
            cand!(q, { q.nests.remove(i); });
        }
        for i in 0..p.classes.len() {
            cand!(q, { q.classes.remove(i); });
        }
        for i in 0..p.others.len() {
            cand!(q, { q.others.remove(i); });
        }
        if p.via_text.is_some() && p.text_faults.is_empty() {
            cand!(q, { q.via_text = None; });
        }
        if p.entry_order != 0 {
            cand!(q, { q.entry_order = 0; });
        }
        if p.map_order != 0 {
            cand!(q, { q.map_order = 0; });
        }
        if p.deflate {
            cand!(q, { q.deflate = false; });
        }
        for (i, cl) in p.classes.iter().enumerate() {
            if !cl.bare {
                cand!(q, { q.classes[i].bare = true; });
            }
            if cl.max_members > 0 {
                cand!(q, { q.classes[i].max_members = 0; });
            }
            if cl.features != 0 {
                cand!(q, { q.classes[i].features = 0; });
                cand!(q, { q.classes[i].features &= refclass::gen::feat::CODE; });
            }
            if cl.layout != 0 {
                cand!(q, { q.classes[i].layout = 0; });
            }
            if cl.edits.len() > 1 {
                cand!(q, { q.classes[i].edits.clear(); });
            }
            for k in 0..cl.edits.len() {
                cand!(q, { q.classes[i].edits.remove(k); });
            }
            for k in 0..cl.decl_methods.len() {
                cand!(q, { q.classes[i].decl_methods.remove(k); });
            }
            let (nf, nm) = generated_member_counts(cl);
            for k in 0..nf as u16 {
                if !cl.drop_fields.contains(&k) {
                    cand!(q, { q.classes[i].drop_fields.push(k); });
                }
            }
            for k in 0..nm as u16 {
                if !cl.drop_methods.contains(&k) {
                    cand!(q, { q.classes[i].drop_methods.push(k); });
                }
            }
        }
        for m in crate::c03::shrink_mapset(&p.m) {
            cand!(q, { q.m = m; });
        }
        for (i, n) in p.nests.iter().enumerate() {
            if n.method.is_some() {
                cand!(q, { q.nests[i].method = None; });
            }
            if n.access != 0 {
                cand!(q, { q.nests[i].access = 0; });
            }
        }
        c
    }

    fn size(&self, p: &Plan) -> (u64, u64) {
        ((p.classes.len() + p.others.len() + p.nests.len() + p.m.count() + p.classes.iter().map(|c| c.edits.len()).sum::<usize>()) as u64, (p.jar_io.faults.len() + p.text_faults.len() + p.lazy.as_ref().map_or(0, |l| l.faults())) as u64)
    }

    fn rule(&self) -> String {
        "one run = one jar of 1-8 (thorough: up to 14) small generated classes (refclass gen_class with a per-class feature mask, post-processed so that classes reference each other in super types, interfaces, descriptors, every class-carrying instruction, constants, handles, invokedynamic, catch types, annotations, InnerClasses/EnclosingMethod/NestHost/NestMembers/PermittedSubclasses, signatures, debug tables, frames, record components) plus non-class entries x one nests table (1-3 chains of depth 1-4 over the jar's classes; anonymous/inner/local; derived and custom inner names; enclosing classes missing from the jar; nests for absent classes; entries violating the rule of their kind; delivered as text through Nests::read or built in memory) x one two-namespace mapping set whose source namespace names the jar's classes (target names C_<n>, arbitrary, or already nested X__Y) x one reader schedule on the jar (chunk ceiling, short %, EINTR %) x 0-2 faults on the jar (EIO at call/offset, EOF, flipped byte, seek failure) x 0-2 faults on the table text (torn at line boundaries +-1, flipped byte). Oracle (refnest): exactly the nests whose class is in the jar and which satisfy the rule of their kind are applied; new name = new name of the enclosing class + '$' + inner name, transitively; every class-name-carrying position of every class is rewritten; the nested class itself carries one InnerClasses entry for itself (outer = enclosing class for member classes only, simple name = inner name without numeric prefix, none for anonymous; flags from the table) and anonymous/local classes carry EnclosingMethod(enclosing class, table method); JVMS 4.7.6 additionally asks the enclosing class to list the member - the property says 'an InnerClasses entry', so that is only counted (probe jvms.*); missing enclosing classes of applied nests exist afterwards; entry names follow class names; other entries untouched; output classes are read only through refclass::parse/validate (new validator problem kinds = invalid-output). Mappings: apply renames every listed class in the source namespace and rewrites member descriptors; undo(apply(m)) = m and undo(reference-applied m) = m on source names and descriptors; for tables whose entries all apply, the class-name sets of nested jar and nested mappings agree; remap_nests keeps every nest with class, enclosing class, method name+descriptor and inner name in the target namespace. T1: identical entries under legal chunking/EINTR. T2: Err, or Ok equal to the reference result on the delivered jar bytes; healed call = T0; table text: Err or Ok equal to the reference reading of the delivered text. A run counts as non-trivial when a short read, EINTR or fault fired; distinct by (workload shape, I/O log digest).".into()
    }

    fn assumptions(&self) -> Vec<String> {
        vec![
            "jar entries of classes are named <this_class>.class (the code states the same assumption); under faults a delivered jar that breaks it is not judged (probe t2.delivered_entry_name_differs_from_class_name)".into(),
            "'enclosing method present' is read as: the table names a method AND the enclosing class in the jar declares it (adopted from the code; the property does not say which). Hence an inner nest naming an undeclared method applies, a local nest naming an undeclared method does not".into(),
            "anonymous inner names stay below 10 digits (the code parses them as i32; 'positive numeric' has no bound in the property)".into(),
            "tables contain no cycles and no two entries that produce the same new name; new names never collide with existing classes (the code overwrites silently / recurses without bound; not quantified by the property)".into(),
            "a missing enclosing class that is itself listed as a nested class is generated only in 8% of the non-all-apply runs and reported under its own stage name jar[created-enclosing-is-listed]: the reference reads 'present' as 'present in the given jar'".into(),
            "nest access flags are compared on the bits an InnerClasses entry defines (0x761f)".into(),
            "Nests::read takes &Vec<u8>: there is no reader seam on the table, so chunking/EINTR (T1) do not exist for it; T2 on the table = torn / flipped bytes".into(),
            "nests text format (from dukenest/src/io.rs, no other specification exists): one nest per line, 6 TAB separated columns class, enclosing class, method name, method descriptor, inner name, access (decimal | 0x hex | 0b binary); kind derived from the inner name (all digits = anonymous, leading digit = local, else inner); absent method = empty name or descriptor; the reference reader is stricter on numbers (no sign); reference Err + real Ok is counted (table.t2.lenient_accept), not flagged".into(),
            "apply/undo: target-namespace class names are excluded from every comparison (the property speaks about the source namespace; undo does not restore target names); whether they follow the translated table is only counted".into(),
            "every class of the mapping set has a target name except in 3% of the runs (apply_nests_to_mappings unwraps it)".into(),
            "remap_nests inner-name derivation adopted from the code: target name X__Y (last __) = already nested (enclosing X, inner Y); anonymous: the table's number, or the digits after C_ of the target simple name; inner/local with derived inner name (source class name ends with it): target simple name (local keeps its numeric prefix); custom inner names unchanged; a class/method without target name keeps its name; no inheritance lookup for the enclosing method; target names that the code refuses (C_<non-digits> for anonymous classes, X__ with empty side) are not generated".into(),
            "content that nesting has no reason to touch is compared too (the statement lists what nesting does; anything else changing is reported as semantic-mismatch under the Sem::diff path, e.g. frames / local variables / unknown attributes / record components / parameter annotations lost by duke and dukebox::remap). 60% of the runs use only features that survive, so that the comparison is exact there".into(),
            "harness profile: opt-level 2 with overflow checks and debug assertions".into(),
        ]
    }

    fn real_and_stub(&self) -> serde_json::Value {
        json!({
            "real": ["dukenest::{nest_jar, apply_nests_to_mappings, undo_nests_to_mappings, remap_nests}", "dukenest::nest::Nests::read", "dukebox::remap::{remap_class, remap_jar_entry_name}", "dukebox::storage (zip_impls, ParsedJar, ClassRepr)", "duke::{read_class, write_class}", "quill::remapper, quill::tree::mappings", "zip::ZipArchive over the simulated reader", "std BufReader::lines"],
            "stub": ["jar byte source (SimReader behind SimJar)", "nests table bytes (torn/flipped copies)", "zip crate when assembling the input jar and when re-opening the delivered bytes for the reference (trusted)"],
            "reference": ["refnest::{nest_jar_ref, rename_sem, apply_to_mapset, remap_table, read_nests_text}", "refclass::{parse, validate, encode, gen_class}", "refmap::MapSet"]
        })
    }

    fn expected_probes(&self) -> Vec<&'static str> {
        vec![
            "nest.applied.anonymous",
            "nest.applied.inner",
            "nest.applied.local",
            "nest.rejected.anonymous_not_positive_number",
            "nest.rejected.inner_with_enclosing_method",
            "nest.rejected.local_without_enclosing_method",
            "nest.absent_class",
            "chain.depth1",
            "chain.depth2",
            "chain.depth3",
            "chain.depth4plus",
            "nest.missing_enclosing_class",
            "enclosing_class_created",
            "inner_name.custom",
            "inner_name.derived",
            "remap_nests.already_nested_target_name",
            "checked.apply",
            "checked.undo",
            "checked.undo_apply_identity",
            "checked.jar_vs_mappings_agreement",
            "checked.remap_nests",
            "table.via_text",
            "table.in_memory",
            "table.t2.err",
            "table.t2.ok_agrees_with_reference_reading",
            "t2.err_under_fault",
            "io.short_transfers",
            "io.eintr",
            "corner.created_enclosing_is_listed",
        ]
    }
}
