//! C20 helper: an index-level *skeleton* walker over class-file bytes, written from JVMS 4.1/4.4/4.7 and
//! sharing no code with /repo or with refclass. It records exactly what the raw representation of
//! `raw_class_file` exposes at index level (pool tags, header indices, member headers, the attribute tree as
//! (name index, name, attribute_length, nested attributes of Code / Record)), plus byte offsets, so that
//!
//!  * a value returned by `ClassFile::read` can be checked to be the representation *of these bytes*
//!    (read and write of the crate are derived from one field list, so a consistent mis-parse would
//!    round-trip byte-exactly and stay invisible to a pure byte comparison);
//!  * the first differing byte of two encodings can be named by a stable region
//!    (`attr.NestMembers.attribute_length`, `pool.entry.tag5`, ...);
//!  * faults can be aimed (inside the pool, inside an attribute body, at a length field);
//!  * a single attribute can be re-hosted in a minimal class to find out which attribute kind makes the
//!    reader refuse a well-formed file.

#[derive(Clone, Debug)]
pub struct PoolEnt {
    /// JVMS index of the entry (long/double occupy two)
    pub index: u16,
    pub tag: u8,
    pub off: usize,
    pub end: usize,
}

#[derive(Clone, Debug)]
pub struct Attr {
    /// offset of attribute_name_index
    pub off: usize,
    pub name_index: u16,
    pub name: Vec<u8>,
    pub length: u32,
    /// one past the last byte (off + 6 + length)
    pub end: usize,
    /// attributes nested inside a `Code` (on a method) or inside the components of a `Record` (on the class)
    pub nested: Vec<Attr>,
    /// for Record: number of nested attributes per component
    pub record_components: Vec<(u16, u16, usize)>,
}

#[derive(Clone, Debug)]
pub struct Member {
    pub off: usize,
    pub access: u16,
    pub name: u16,
    pub desc: u16,
    pub attrs_count_off: usize,
    pub attrs: Vec<Attr>,
}

#[derive(Clone, Debug)]
pub struct Skel {
    pub minor: u16,
    pub major: u16,
    pub pool_count: u16,
    pub pool: Vec<PoolEnt>,
    /// offset of access_flags
    pub pool_end: usize,
    pub access: u16,
    pub this_class: u16,
    pub super_class: u16,
    pub interfaces_off: usize,
    pub interfaces: Vec<u16>,
    pub fields_off: usize,
    pub fields: Vec<Member>,
    pub methods_off: usize,
    pub methods: Vec<Member>,
    pub attrs_off: usize,
    pub attrs: Vec<Attr>,
    pub end: usize,
}

struct Rd<'a> {
    b: &'a [u8],
    p: usize,
}
type R<T> = Result<T, String>;
impl<'a> Rd<'a> {
    fn need(&self, n: usize) -> R<()> {
        if self.p + n > self.b.len() {
            Err(format!("truncated at {}", self.p))
        } else {
            Ok(())
        }
    }
    fn u8(&mut self) -> R<u8> {
        self.need(1)?;
        let v = self.b[self.p];
        self.p += 1;
        Ok(v)
    }
    fn u16(&mut self) -> R<u16> {
        self.need(2)?;
        let v = u16::from_be_bytes([self.b[self.p], self.b[self.p + 1]]);
        self.p += 2;
        Ok(v)
    }
    fn u32(&mut self) -> R<u32> {
        self.need(4)?;
        let v = u32::from_be_bytes([self.b[self.p], self.b[self.p + 1], self.b[self.p + 2], self.b[self.p + 3]]);
        self.p += 4;
        Ok(v)
    }
    fn skip(&mut self, n: usize) -> R<()> {
        self.need(n)?;
        self.p += n;
        Ok(())
    }
}

/// size of the payload of a pool entry after its tag; `None` = variable (Utf8) or unknown
fn cp_payload(tag: u8) -> Option<usize> {
    Some(match tag {
        7 | 8 | 16 | 19 | 20 => 2,
        9 | 10 | 11 | 12 | 17 | 18 | 3 | 4 => 4,
        5 | 6 => 8,
        15 => 3,
        _ => return None,
    })
}

/// Walks the pool starting at offset 8 (the count). `slots`: JVMS rule (long/double take two indices);
/// otherwise one index per entry. Returns the offset reached: the end of the pool, or the offset at which the
/// walk cannot continue (unknown tag, truncation).
pub fn pool_walk_end(b: &[u8], slots: bool) -> usize {
    let mut r = Rd { b, p: 8 };
    let Ok(count) = r.u16() else { return r.p };
    let mut i = 1u32;
    while i < count as u32 {
        let at = r.p;
        let Ok(tag) = r.u8() else { return at };
        if tag == 1 {
            let Ok(n) = r.u16() else { return at };
            if r.skip(n as usize).is_err() {
                return at;
            }
        } else if let Some(n) = cp_payload(tag) {
            if r.skip(n).is_err() {
                return at;
            }
        } else {
            return at;
        }
        i += if slots && (tag == 5 || tag == 6) { 2 } else { 1 };
    }
    r.p
}

impl Skel {
    pub fn utf8(&self, b: &[u8], index: u16) -> Option<Vec<u8>> {
        let e = self.pool.iter().find(|e| e.index == index)?;
        if e.tag != 1 {
            return None;
        }
        Some(b[e.off + 3..e.end].to_vec())
    }
    pub fn has_wide(&self) -> bool {
        self.pool.iter().any(|e| e.tag == 5 || e.tag == 6)
    }
    /// every attribute of the class at every nesting level, outer before inner
    pub fn all_attrs(&self) -> Vec<&Attr> {
        fn rec<'a>(a: &'a Attr, out: &mut Vec<&'a Attr>) {
            out.push(a);
            for n in &a.nested {
                rec(n, out);
            }
        }
        let mut out = vec![];
        for m in self.fields.iter().chain(self.methods.iter()) {
            for a in &m.attrs {
                rec(a, &mut out);
            }
        }
        for a in &self.attrs {
            rec(a, &mut out);
        }
        out
    }

    /// Stable name of the structure that byte `off` belongs to.
    pub fn region(&self, off: usize) -> String {
        if off < 8 {
            return "header.magic-version".into();
        }
        if off < 10 {
            return "pool.count".into();
        }
        if off < self.pool_end {
            if let Some(e) = self.pool.iter().find(|e| e.off <= off && off < e.end) {
                return format!("pool.entry.tag{}", e.tag);
            }
            return "pool".into();
        }
        if off >= self.end {
            return "past-end".into();
        }
        if off < self.interfaces_off {
            return "class.header".into();
        }
        if off < self.fields_off {
            return "class.interfaces".into();
        }
        // innermost attribute
        let mut best: Option<&Attr> = None;
        for a in self.all_attrs() {
            if a.off <= off && off < a.end {
                best = Some(a); // outer before inner: the last hit is the innermost
            }
        }
        if let Some(a) = best {
            let name = String::from_utf8_lossy(&a.name).into_owned();
            let part = if off < a.off + 2 {
                "name_index"
            } else if off < a.off + 6 {
                "attribute_length"
            } else {
                "body"
            };
            return format!("attr.{name}.{part}");
        }
        let member = |kind: &str, ms: &[Member], start: usize| -> Option<String> {
            if off < start + 2 {
                return Some(format!("{kind}s.count"));
            }
            for m in ms {
                if m.off <= off && off < m.attrs_count_off {
                    return Some(format!("{kind}.header"));
                }
                if m.attrs_count_off <= off && off < m.attrs_count_off + 2 {
                    return Some(format!("{kind}.attributes_count"));
                }
            }
            None
        };
        if off < self.methods_off {
            if let Some(s) = member("field", &self.fields, self.fields_off) {
                return s;
            }
        } else if off < self.attrs_off {
            if let Some(s) = member("method", &self.methods, self.methods_off) {
                return s;
            }
        } else if off < self.attrs_off + 2 {
            return "class.attributes_count".into();
        }
        "unmapped".into()
    }
}

/// `loc`: 0 class, 1 field, 2 method, 3 code, 4 record component
fn attrs(r: &mut Rd, sk: &Skel, loc: u8, depth: u32) -> R<Vec<Attr>> {
    let n = r.u16()?;
    let mut out = vec![];
    for _ in 0..n {
        let off = r.p;
        let name_index = r.u16()?;
        let length = r.u32()?;
        let body = r.p;
        r.need(length as usize).map_err(|_| format!("attribute at {off} longer than the file"))?;
        let end = body + length as usize;
        let name = sk.utf8(r.b, name_index).ok_or_else(|| format!("attribute name index {name_index} at {off} is not a Utf8"))?;
        let mut a = Attr { off, name_index, name, length, end, nested: vec![], record_components: vec![] };
        if depth < 4 && loc == 2 && a.name == b"Code" {
            let mut q = Rd { b: &r.b[..end], p: body };
            q.skip(4)?;
            let cl = q.u32()?;
            q.skip(cl as usize)?;
            let ne = q.u16()?;
            q.skip(8 * ne as usize)?;
            a.nested = attrs(&mut q, sk, 3, depth + 1)?;
            if q.p != end {
                return Err(format!("Code at {off}: attribute_length does not match its content"));
            }
        } else if depth < 4 && loc == 0 && a.name == b"Record" {
            let mut q = Rd { b: &r.b[..end], p: body };
            let nc = q.u16()?;
            for _ in 0..nc {
                let cn = q.u16()?;
                let cd = q.u16()?;
                let sub = attrs(&mut q, sk, 4, depth + 1)?;
                a.record_components.push((cn, cd, sub.len()));
                a.nested.extend(sub);
            }
            if q.p != end {
                return Err(format!("Record at {off}: attribute_length does not match its content"));
            }
        }
        r.p = end;
        out.push(a);
    }
    Ok(out)
}

fn members(r: &mut Rd, sk: &Skel, loc: u8) -> R<Vec<Member>> {
    let n = r.u16()?;
    let mut out = vec![];
    for _ in 0..n {
        let off = r.p;
        let access = r.u16()?;
        let name = r.u16()?;
        let desc = r.u16()?;
        let attrs_count_off = r.p;
        let a = attrs(r, sk, loc, 0)?;
        out.push(Member { off, access, name, desc, attrs_count_off, attrs: a });
    }
    Ok(out)
}

/// Walks one class file from the start of `b`; `Skel::end` is the number of bytes it occupies.
pub fn skeleton(b: &[u8]) -> R<Skel> {
    let mut r = Rd { b, p: 0 };
    if r.u32()? != 0xCAFE_BABE {
        return Err("magic".into());
    }
    let minor = r.u16()?;
    let major = r.u16()?;
    let pool_count = r.u16()?;
    let mut pool = vec![];
    let mut i = 1u32;
    while i < pool_count as u32 {
        let off = r.p;
        let tag = r.u8()?;
        if tag == 1 {
            let n = r.u16()?;
            r.skip(n as usize)?;
        } else if let Some(n) = cp_payload(tag) {
            r.skip(n)?;
        } else {
            return Err(format!("pool tag {tag} at {off}"));
        }
        pool.push(PoolEnt { index: i as u16, tag, off, end: r.p });
        i += if tag == 5 || tag == 6 { 2 } else { 1 };
    }
    if i != pool_count as u32 {
        return Err("a long/double occupies the last pool index".into());
    }
    let mut sk = Skel {
        minor,
        major,
        pool_count,
        pool,
        pool_end: r.p,
        access: 0,
        this_class: 0,
        super_class: 0,
        interfaces_off: 0,
        interfaces: vec![],
        fields_off: 0,
        fields: vec![],
        methods_off: 0,
        methods: vec![],
        attrs_off: 0,
        attrs: vec![],
        end: 0,
    };
    sk.access = r.u16()?;
    sk.this_class = r.u16()?;
    sk.super_class = r.u16()?;
    sk.interfaces_off = r.p;
    let ni = r.u16()?;
    for _ in 0..ni {
        let v = r.u16()?;
        sk.interfaces.push(v);
    }
    sk.fields_off = r.p;
    sk.fields = members(&mut r, &sk, 1)?;
    sk.methods_off = r.p;
    sk.methods = members(&mut r, &sk, 2)?;
    sk.attrs_off = r.p;
    sk.attrs = attrs(&mut r, &sk, 0, 0)?;
    sk.end = r.p;
    Ok(sk)
}

/// A minimal class that carries the pool of `b` verbatim and exactly the given attribute(s) at class level:
/// used to find out which pool / attribute kind the reader under test cannot handle. Not necessarily a
/// well-formed class (a `Code` attribute is not defined at class level); it is a diagnostic probe only.
pub fn host(b: &[u8], sk: &Skel, attr: Option<&Attr>) -> Vec<u8> {
    let mut out = b[..sk.pool_end].to_vec();
    out.extend_from_slice(&0x0021u16.to_be_bytes());
    out.extend_from_slice(&sk.this_class.to_be_bytes());
    out.extend_from_slice(&sk.super_class.to_be_bytes());
    out.extend_from_slice(&[0, 0, 0, 0, 0, 0]);
    match attr {
        None => out.extend_from_slice(&[0, 0]),
        Some(a) => {
            out.extend_from_slice(&[0, 1]);
            out.extend_from_slice(&b[a.off..a.end]);
        }
    }
    out
}
