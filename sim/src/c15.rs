//! C15 - bridge targets inherit the bridge's mapped name, nothing else changes
//! (`add_specialized_methods_to_mappings`, `get_specialized_methods`, compiled from /repo/src/specialized_methods).
//!
//! Main jar and library jars are `SimJar`s. Workload: small classes built from templates (plan level: `ClassSpec`),
//! turned into `refclass::Sem`, encoded by the reference encoder, zipped by the harness.

use crate::bridge::{from_quill, to_quill};
use crate::engine::*;
use crate::refbridge as rb;
use crate::refbridge::{MRef, RClass, ACC_BRIDGE, ACC_FINAL, ACC_PRIVATE, ACC_STATIC, ACC_SYNTHETIC, OBJECT};
use crate::refmap::*;
use crate::rng::{Digest, Rng};
use crate::simio::*;
use crate::simjar::*;
use crate::specialized_methods::{add_specialized_methods_to_mappings, GetSpecializedMethods};
use crate::{Intermediary, Named, Official};
use quill::tree::mappings::{MappingInfo, Mappings};
use quill::tree::names::Namespaces;
use refclass::sem::{self, Insn, InvokeOp, LocalKind, MemberRef, Sem};
use refclass::{JStr, SpanKind};
use serde::{Deserialize, Serialize};
use serde_json::json;
use std::collections::{BTreeMap, BTreeSet};

pub struct C15;

pub const ACC_PUBLIC: u16 = 0x0001;
pub const ACC_PROTECTED: u16 = 0x0004;
pub const ACC_SUPER: u16 = 0x0020;
pub const ACC_INTERFACE: u16 = 0x0200;
pub const ACC_ABSTRACT: u16 = 0x0400;

// ------------------------------------------------------------------------------------------------
// plan

#[derive(Clone, Debug, Serialize, Deserialize, PartialEq)]
pub struct CallSpec {
    /// 0 invokevirtual, 1 invokespecial, 2 invokestatic, 3 invokeinterface, 4 invokedynamic (owner unused)
    pub op: u8,
    pub owner: String,
    pub name: String,
    pub desc: String,
}

#[derive(Clone, Debug, Serialize, Deserialize, PartialEq)]
pub struct MethodSpec {
    pub access: u16,
    pub name: String,
    pub desc: String,
    /// has a Code attribute
    pub code: bool,
    pub calls: Vec<CallSpec>,
    /// template tag (probes, violation paths); "" for filler methods
    #[serde(default)]
    pub kind: String,
    /// carries a Synthetic *attribute*
    #[serde(default)]
    pub synth_attr: bool,
    /// bit0 LineNumberTable, bit1 Exceptions attribute, bit2 checkcast before passing differing reference types
    #[serde(default)]
    pub extras: u8,
}

#[derive(Clone, Debug, Serialize, Deserialize, PartialEq)]
pub struct FieldSpec {
    pub access: u16,
    pub name: String,
    pub desc: String,
    /// bit0 ConstantValue (int fields) / Signature (others), bit1 unknown attribute, bit2 Deprecated
    pub attrs: u8,
}

#[derive(Clone, Debug, Serialize, Deserialize, PartialEq)]
pub struct ClassSpec {
    pub name: String,
    pub access: u16,
    pub sup: Option<String>,
    pub ifs: Vec<String>,
    pub methods: Vec<MethodSpec>,
    #[serde(default)]
    pub fields: Vec<FieldSpec>,
    /// bit0 SourceFile, bit1 Signature, bit2 InnerClasses, bit3 unknown attribute, bit4 Deprecated
    #[serde(default)]
    pub attrs: u8,
    pub major: u16,
}

#[derive(Clone, Debug, Serialize, Deserialize, PartialEq)]
pub struct JarSpec {
    /// archive order
    pub classes: Vec<ClassSpec>,
    pub deflate: bool,
    /// seed of the class-file layout (0 = canonical)
    pub layout: u64,
    /// bit0 directory entries, bit1 manifest, bit2 a non-class file
    pub extras: u8,
}

/// A bit of one class file flipped before the jar was assembled (so the archive itself is consistent).
#[derive(Clone, Debug, Serialize, Deserialize, PartialEq)]
pub struct Damage {
    /// 0 = main jar, i + 1 = library i
    pub jar: usize,
    pub class: String,
    pub off: u32,
    pub bit: u8,
    /// where it was aimed (for probes): "skipped-attr", "lib-body", "any"
    pub aim: String,
}

#[derive(Clone, Serialize, Deserialize)]
pub struct Plan {
    pub main: JarSpec,
    pub libs: Vec<JarSpec>,
    /// official -> intermediary
    pub calamus: MapSet,
    /// intermediary -> named: the set to be extended
    pub mappings: MapSet,
    pub order_cal: u64,
    pub order_map: u64,
    /// I/O plan per jar: index 0 = main jar, i + 1 = library i (missing entries: plain)
    pub io: Vec<IoPlan>,
    pub damage: Vec<Damage>,
    /// run index the plan was drawn for (information only)
    #[serde(default)]
    pub run: u64,
    /// non-empty: the same (undamaged) jars are also offered as `LazyJar`s (entry-level seam), one plan per jar
    #[serde(default)]
    pub lazy: Vec<crate::simjar::LazyPlan>,
    /// non-zero: the same (undamaged) jars are also stored as files of the simulated directory and offered as dukebox
    /// `FileJar`s. 2: under the same paths another set of jars (the same classes with their super types cut off) was
    /// used for one call before - what is remembered per path must not outlive the file (missed seeded change C15-11)
    #[serde(default)]
    pub file_route: u8,
}

impl Plan {
    fn jar(&self, j: usize) -> &JarSpec {
        if j == 0 {
            &self.main
        } else {
            &self.libs[j - 1]
        }
    }
    fn jar_mut(&mut self, j: usize) -> &mut JarSpec {
        if j == 0 {
            &mut self.main
        } else {
            &mut self.libs[j - 1]
        }
    }
    fn njars(&self) -> usize {
        1 + self.libs.len()
    }
    fn io_of(&self, j: usize) -> IoPlan {
        self.io.get(j).cloned().unwrap_or_default()
    }
    /// template tag of the method a (possibly damaged) reference points at: exact match, else the closest unique one
    fn kind_of(&self, r: &MRef) -> String {
        let tag = |m: &MethodSpec| if m.kind.is_empty() { "filler".to_string() } else { m.kind.clone() };
        let all: Vec<(&ClassSpec, &MethodSpec)> = self.main.classes.iter().flat_map(|c| c.methods.iter().map(move |m| (c, m))).collect();
        let tries: [&dyn Fn(&(&ClassSpec, &MethodSpec)) -> bool; 6] = [
            &|(c, m)| c.name == r.0 && m.name == r.1 && m.desc == r.2,
            &|(c, m)| c.name == r.0 && m.name == r.1,
            &|(c, m)| c.name == r.0 && m.name == r.1 && !m.kind.is_empty(),
            // the class name itself may be damaged (T2): the template method with this name and descriptor
            &|(_, m)| m.name == r.1 && m.desc == r.2 && !m.kind.is_empty(),
            &|(_, m)| m.name == r.1 && m.desc == r.2,
            &|(_, m)| m.name == r.1 && !m.kind.is_empty(),
        ];
        for t in tries {
            let hit: Vec<&(&ClassSpec, &MethodSpec)> = all.iter().filter(|x| t(x)).collect();
            if hit.len() == 1 {
                return tag(hit[0].1);
            }
        }
        "?".into()
    }

    /// `kind_of` for a (bridge, delegate) pair: when names are damaged (T2) the template is still recognisable by the
    /// descriptor of the method together with the descriptor of one of the methods it calls.
    fn kind_of_pair(&self, b: &MRef, d: &MRef) -> String {
        let k = self.kind_of(b);
        if k != "?" && k != "filler" {
            return k;
        }
        let hits: Vec<&MethodSpec> = self.main.classes.iter().flat_map(|c| c.methods.iter()).filter(|m| !m.kind.is_empty() && m.desc == b.2 && m.calls.iter().any(|c| c.desc == d.2)).collect();
        if hits.len() == 1 {
            return hits[0].kind.clone();
        }
        k
    }
}

// ------------------------------------------------------------------------------------------------
// spec -> Sem -> bytes -> jar

fn js(s: &str) -> JStr {
    JStr::from_str(s)
}

#[derive(Clone, Copy, PartialEq)]
enum K {
    I,
    L,
    F,
    D,
    A,
}
fn kind_of_ty(t: &refclass::desc::FieldTy) -> K {
    use refclass::desc::Base::*;
    if t.dims > 0 {
        return K::A;
    }
    match t.base {
        Long => K::L,
        Float => K::F,
        Double => K::D,
        Object(_) => K::A,
        _ => K::I,
    }
}
fn lk(k: K) -> LocalKind {
    match k {
        K::I => LocalKind::I,
        K::L => LocalKind::L,
        K::F => LocalKind::F,
        K::D => LocalKind::D,
        K::A => LocalKind::A,
    }
}
fn slots(k: K) -> u16 {
    if matches!(k, K::L | K::D) {
        2
    } else {
        1
    }
}
fn push_default(k: K) -> Insn {
    Insn::Simple(match k {
        K::I => 3,  // iconst_0
        K::L => 9,  // lconst_0
        K::F => 11, // fconst_0
        K::D => 14, // dconst_0
        K::A => 1,  // aconst_null
    })
}
fn ret_insn(k: Option<K>) -> Insn {
    Insn::Simple(match k {
        Some(K::I) => 172,
        Some(K::L) => 173,
        Some(K::F) => 174,
        Some(K::D) => 175,
        Some(K::A) => 176,
        None => 177,
    })
}

fn body(m: &MethodSpec) -> sem::Code {
    let (params, ret) = refclass::desc::parse_method_desc(m.desc.as_bytes()).unwrap_or((vec![], None));
    let is_static = m.access & ACC_STATIC != 0;
    let mut slot_of = vec![];
    let mut next: u16 = if is_static { 0 } else { 1 };
    for p in &params {
        slot_of.push(next);
        next += slots(kind_of_ty(p));
    }
    let retk = ret.as_ref().map(kind_of_ty);
    let mut insns = vec![];
    let mut max_stack: u16 = 2;
    let mut left: Option<K> = None;
    for (ci, c) in m.calls.iter().enumerate() {
        let (cp, cr) = refclass::desc::parse_method_desc(c.desc.as_bytes()).unwrap_or((vec![], None));
        let mut depth = 0u16;
        if c.op != 2 && c.op != 4 {
            insns.push(if is_static { Insn::Simple(1) } else { Insn::Load(LocalKind::A, 0) });
            depth += 1;
        }
        for (j, t) in cp.iter().enumerate() {
            let k = kind_of_ty(t);
            if j < params.len() && kind_of_ty(&params[j]) == k {
                insns.push(Insn::Load(lk(k), slot_of[j]));
                if m.extras & 4 != 0 && k == K::A && params[j] != *t {
                    if let (0, refclass::desc::Base::Object(n)) = (t.dims, &t.base) {
                        insns.push(Insn::CheckCast(JStr::from_bytes(n)));
                    }
                }
            } else {
                insns.push(push_default(k));
            }
            depth += slots(k);
        }
        max_stack = max_stack.max(depth + 2);
        let mr = MemberRef { owner: js(&c.owner), name: js(&c.name), desc: js(&c.desc), is_interface: c.op == 3 };
        insns.push(match c.op {
            0 => Insn::Invoke(InvokeOp::Virtual, mr),
            1 => Insn::Invoke(InvokeOp::Special, mr),
            2 => Insn::Invoke(InvokeOp::Static, mr),
            3 => Insn::Invoke(InvokeOp::Interface, mr),
            _ => Insn::InvokeDynamic(Box::new(sem::Dynamic {
                bsm: sem::Handle {
                    kind: 6,
                    member: MemberRef {
                        owner: js("java/lang/invoke/LambdaMetafactory"),
                        name: js("metafactory"),
                        desc: js("(Ljava/lang/invoke/MethodHandles$Lookup;Ljava/lang/String;Ljava/lang/invoke/MethodType;)Ljava/lang/invoke/CallSite;"),
                        is_interface: false,
                    },
                },
                args: vec![],
                name: js(&c.name),
                desc: js(&c.desc),
            })),
        });
        if let Some(r) = cr {
            let k = kind_of_ty(&r);
            if ci + 1 == m.calls.len() && retk == Some(k) {
                left = Some(k);
            } else {
                insns.push(Insn::Simple(if slots(k) == 2 { 88 } else { 87 }));
            }
        }
    }
    if let (Some(k), None) = (retk, left) {
        insns.push(push_default(k));
    }
    insns.push(ret_insn(retk));
    let mut code = sem::Code { max_stack, max_locals: next.max(1), insns, ..Default::default() };
    if m.extras & 1 != 0 {
        code.line_numbers.push(sem::LineNumber { at: 0, line: 17 });
    }
    code
}

pub fn to_sem(c: &ClassSpec) -> Sem {
    let mut s = Sem { minor: 0, major: c.major, access: c.access, this_class: js(&c.name), super_class: c.sup.as_deref().map(js), interfaces: c.ifs.iter().map(|x| js(x)).collect(), ..Default::default() };
    for f in &c.fields {
        let mut sf = sem::Field { access: f.access, name: js(&f.name), desc: js(&f.desc), ..Default::default() };
        if f.attrs & 1 != 0 {
            if f.desc == "I" {
                sf.constant_value = Some(sem::ConstValue::Int(42));
            } else {
                sf.signature = Some(js("TT;"));
            }
        }
        if f.attrs & 2 != 0 {
            sf.unknown.push(sem::UnknownAttr { name: js("VerifFieldNote"), bytes: vec![0xCA, 0xFE, 1, 2, 3, 4, 5, 6] });
        }
        sf.deprecated = f.attrs & 4 != 0;
        s.fields.push(sf);
    }
    for m in &c.methods {
        let mut sm = sem::Method { access: m.access, name: js(&m.name), desc: js(&m.desc), synthetic: m.synth_attr, ..Default::default() };
        if m.code {
            sm.code = Some(body(m));
        }
        if m.extras & 2 != 0 {
            sm.exceptions = Some(vec![js("java/lang/Exception")]);
        }
        s.methods.push(sm);
    }
    if c.attrs & 1 != 0 {
        s.source_file = Some(js("Source.java"));
    }
    if c.attrs & 2 != 0 {
        s.signature = Some(js("<T:Ljava/lang/Object;>Ljava/lang/Object;"));
    }
    if c.attrs & 4 != 0 {
        s.inner_classes = Some(vec![sem::InnerClass { inner: js(&format!("{}$In", c.name)), outer: Some(js(&c.name)), inner_name: Some(js("In")), access: 0x0009 }]);
    }
    if c.attrs & 8 != 0 {
        s.unknown.push(sem::UnknownAttr { name: js("VerifClassNote"), bytes: (0u8..24).collect() });
    }
    s.deprecated = c.attrs & 16 != 0;
    s
}

fn layout_for(jar: &JarSpec, idx: usize) -> refclass::Layout {
    if jar.layout == 0 {
        refclass::Layout::default()
    } else {
        let mut l = refclass::gen_layout(&mut Rng::new(jar.layout ^ (idx as u64).wrapping_mul(0x9E37_79B9)));
        l.emit_map = true;
        l
    }
}

fn encode_class(jar: &JarSpec, idx: usize) -> refclass::Encoded {
    refclass::encode(&to_sem(&jar.classes[idx]), &layout_for(jar, idx)).unwrap_or_else(|e| panic!("harness: template class does not encode: {e}"))
}

/// jar bytes; `damage`: the class-level bit flips that apply to this jar
fn build(jar: &JarSpec, damage: &[&Damage]) -> Vec<u8> {
    let mut entries: Vec<(String, EntryData)> = vec![];
    if jar.extras & 2 != 0 {
        entries.push(("META-INF/".into(), EntryData::Dir));
        entries.push(("META-INF/MANIFEST.MF".into(), EntryData::File(b"Manifest-Version: 1.0\r\n\r\n".to_vec())));
    }
    let mut dirs: BTreeSet<String> = BTreeSet::new();
    for (i, c) in jar.classes.iter().enumerate() {
        if jar.extras & 1 != 0 {
            if let Some((d, _)) = c.name.rsplit_once('/') {
                if dirs.insert(d.to_string()) {
                    entries.push((format!("{d}/"), EntryData::Dir));
                }
            }
        }
        let mut b = encode_class(jar, i).bytes;
        for d in damage {
            if d.class == c.name && (d.off as usize) < b.len() {
                b[d.off as usize] ^= 1 << (d.bit & 7);
            }
        }
        entries.push((format!("{}.class", c.name), EntryData::File(b)));
    }
    if jar.extras & 4 != 0 {
        entries.push(("assets/readme.txt".into(), EntryData::File(b"not a class".to_vec())));
    }
    build_jar(&entries, jar.deflate)
}

fn rclass_of_spec(c: &ClassSpec) -> RClass {
    rb::project(&to_sem(c)).expect("harness: template names are well-formed")
}

#[path = "c15_gen.rs"]
mod gen;

// ------------------------------------------------------------------------------------------------
// the real code

type QCal = Mappings<2, (Official, Intermediary)>;
type QMap = Mappings<2, (Intermediary, Named)>;

fn retag<A, B>(q: Mappings<2, A>) -> Mappings<2, B> {
    let names: [String; 2] = {
        let n: &[String; 2] = (&q.info.namespaces).into();
        n.clone()
    };
    Mappings { info: MappingInfo { namespaces: Namespaces::try_from(names).expect("namespace names") }, classes: q.classes, javadoc: q.javadoc }
}

fn order(seed: u64) -> Option<Rng> {
    if seed == 0 {
        None
    } else {
        Some(Rng::new(seed))
    }
}

fn sv(x: &impl AsRef<java_string::JavaStr>) -> String {
    match x.as_ref().as_str() {
        Ok(s) => s.to_string(),
        Err(_) => format!("{:?}", x.as_ref()),
    }
}

fn mref(r: &duke::tree::method::MethodRefObj) -> MRef {
    (sv(&r.class), sv(&r.name), sv(&r.desc))
}

fn real_pairs(main: &impl dukebox::storage::Jar) -> anyhow::Result<Vec<(MRef, MRef)>> {
    let sm = main.get_specialized_methods()?;
    Ok(sm.bridge_to_specialized.iter().map(|(b, s)| (mref(b), mref(s))).collect())
}

/// Ok(Ok(set)) | Ok(Err(projection problem)) | Err(the operation failed)
fn real_add<J: dukebox::storage::Jar>(main: &J, libs: &[J], cal: &QCal, map: &QMap) -> anyhow::Result<Result<MapSet, String>> {
    let out = add_specialized_methods_to_mappings(main, cal, libs, map)?;
    Ok(from_quill(&out).map_err(|e| format!("{e:#}")))
}

// ------------------------------------------------------------------------------------------------
// comparison

fn show(r: &MRef) -> String {
    format!("{}.{}{}", r.0, r.1, r.2)
}

fn cmp_pairs(tier: &str, class: &str, p: &Plan, real: &[(MRef, MRef)], want: &[rb::Pair], out: &mut Vec<Violation>) {
    let w: BTreeMap<&MRef, &MRef> = want.iter().map(|x| (&x.bridge, &x.delegate)).collect();
    let r: BTreeMap<&MRef, &MRef> = real.iter().map(|(b, s)| (b, s)).collect();
    for (b, d) in &w {
        match r.get(b) {
            None => out.push(Violation::new(tier, class, format!("pairs.missing[{}]", p.kind_of(b)), format!("{} -> {} is a bridge by the property, not detected", show(b), show(d)))),
            Some(rd) if rd != d => out.push(Violation::new(tier, class, format!("pairs.delegate[{}]", p.kind_of(b)), format!("{}: delegate {} expected, {} detected", show(b), show(d), show(rd)))),
            _ => {}
        }
    }
    for (b, d) in &r {
        if !w.contains_key(b) {
            out.push(Violation::new(tier, class, format!("pairs.extra[{}]", p.kind_of_pair(b, d)), format!("{} -> {} detected as a bridge, the property's predicate says no", show(b), show(d))));
        }
    }
}

fn cmp_map(tier: &str, class: &str, p: &Plan, real: &MapSet, want: &rb::Applied, pairs_agree: bool, out: &mut Vec<Violation>) {
    let n0 = out.len();
    // the last change to a key decides (the quantifier excludes two bridges per delegate and class, see assumptions)
    let mut last: BTreeMap<(&str, &str), &rb::Change> = BTreeMap::new();
    for ch in &want.changes {
        last.insert((&ch.class, &ch.key), ch);
    }
    for ch in last.values() {
        if ch.class_absent {
            continue;
        }
        let tag = format!("{},{}", p.kind_of(&ch.pair.bridge), ch.how);
        match real.classes.get(&ch.class).and_then(|c| c.methods.get(&ch.key)) {
            None => out.push(Violation::new(tier, class, format!("rename[{tag}].absent"), format!("class {:?}: delegate {:?} should be named {:?} (bridge {}), no entry", ch.class, ch.key, ch.name, show(&ch.pair.bridge)))),
            Some(m) if m.names != vec![Some(ch.name.clone())] => {
                out.push(Violation::new(tier, class, format!("rename[{tag}].names"), format!("class {:?}: delegate {:?} should be named {:?} (bridge {}), got {:?}", ch.class, ch.key, ch.name, show(&ch.pair.bridge), m.names)))
            }
            _ => {}
        }
    }
    // a disagreement about the pairs is reported on its own; what it does to the set is not a second finding
    if out.len() == n0 && pairs_agree {
        if let Some((path, d)) = want.out.diff_path(real) {
            out.push(Violation::new(tier, class, format!("untouched.{path}"), format!("expected vs produced: {d}")));
        }
    }
}

// ------------------------------------------------------------------------------------------------
// reference over delivered bytes

enum Delivered {
    Classes(Vec<RClass>),
    /// the archive cannot be read back
    Unreadable(String),
    /// an entry is not a class file the reference accepts
    Unparsable(String),
}

fn classes_of_delivered(bytes: &[u8]) -> Delivered {
    let entries = match open_entries(bytes) {
        Ok(e) => e,
        Err(e) => return Delivered::Unreadable(format!("{e:#}")),
    };
    let mut v = vec![];
    for (name, data) in entries {
        if let EntryData::File(b) = data {
            if name.ends_with(".class") {
                // a name or descriptor outside the JVMS grammar: whatever the code under test makes of it is not judged
                if let Err(msgs) = refclass::validate(&b) {
                    if let Some(m) = msgs.iter().find(|m| matches!(refclass::validate::prefix(m), "name" | "descriptor" | "utf8")) {
                        return Delivered::Unparsable(format!("{name}: {m}"));
                    }
                }
                match refclass::parse(&b) {
                    Ok(sem) => match rb::project(&sem) {
                        Ok(c) => v.push(c),
                        Err(e) => return Delivered::Unparsable(format!("{name}: {e}")),
                    },
                    Err(e) => return Delivered::Unparsable(format!("{name}: {} at {}", e.what, e.offset)),
                }
            }
        }
    }
    Delivered::Classes(v)
}

/// this_class and direct super types as raw names, read with nothing but the constant-pool layout rules
fn header_of(b: &[u8]) -> Option<(Vec<u8>, Vec<Vec<u8>>)> {
    let u2 = |at: usize| -> Option<usize> { Some(((*b.get(at)? as usize) << 8) | *b.get(at + 1)? as usize) };
    if b.get(..4)? != [0xCA, 0xFE, 0xBA, 0xBE] {
        return None;
    }
    let count = u2(8)?;
    let mut at = 10;
    let mut utf8: BTreeMap<usize, &[u8]> = BTreeMap::new();
    let mut class: BTreeMap<usize, usize> = BTreeMap::new();
    let mut i = 1;
    while i < count {
        let tag = *b.get(at)?;
        at += 1;
        match tag {
            1 => {
                let l = u2(at)?;
                utf8.insert(i, b.get(at + 2..at + 2 + l)?);
                at += 2 + l;
            }
            3 | 4 | 9 | 10 | 11 | 12 | 17 | 18 => at += 4,
            5 | 6 => {
                at += 8;
                i += 1;
            }
            7 => {
                class.insert(i, u2(at)?);
                at += 2;
            }
            8 | 16 | 19 | 20 => at += 2,
            15 => at += 3,
            _ => return None,
        }
        i += 1;
    }
    let name = |idx: usize| -> Option<Vec<u8>> { Some(utf8.get(class.get(&idx)?)?.to_vec()) };
    let this = name(u2(at + 2)?)?;
    let mut sup = vec![];
    let s_idx = u2(at + 4)?;
    if s_idx != 0 {
        sup.push(name(s_idx)?);
    }
    let n = u2(at + 6)?;
    for k in 0..n {
        sup.push(name(u2(at + 8 + 2 * k)?)?);
    }
    Some((this, sup))
}

/// Does the hierarchy the delivered archives describe contain a cycle - or can that not be told?
/// (The code under test recurses over super types; such an input is run in a child process.)
fn hierarchy_risk(jars: &[Vec<u8>]) -> Option<&'static str> {
    let mut g: BTreeMap<Vec<u8>, BTreeSet<Vec<u8>>> = BTreeMap::new();
    for bytes in jars {
        let Ok(entries) = open_entries(bytes) else { continue };
        for (name, data) in entries {
            if let EntryData::File(b) = data {
                if name.ends_with(".class") {
                    // a header this walker cannot read (bad magic, unknown pool tag, dangling index, truncation) cannot be
                    // read by the code under test either (its pool reader is eager and at least as strict): no edges
                    if let Some((this, sup)) = header_of(&b) {
                        g.entry(this).or_default().extend(sup);
                    }
                }
            }
        }
    }
    // iterative three-colour depth-first search
    let mut colour: BTreeMap<&Vec<u8>, u8> = BTreeMap::new();
    for start in g.keys() {
        if colour.contains_key(start) {
            continue;
        }
        let mut stack: Vec<(&Vec<u8>, Vec<&Vec<u8>>)> = vec![(start, g[start].iter().collect())];
        colour.insert(start, 1);
        while let Some((node, rest)) = stack.last_mut() {
            match rest.pop() {
                Some(next) => match colour.get(next) {
                    Some(1) => return Some("cyclic-hierarchy"),
                    Some(_) => {}
                    None => {
                        if let Some(e) = g.get_key_value(next) {
                            colour.insert(e.0, 1);
                            stack.push((e.0, e.1.iter().collect()));
                        }
                    }
                },
                None => {
                    colour.insert(*node, 2);
                    stack.pop();
                }
            }
        }
    }
    None
}

static CHILD_SEQ: std::sync::atomic::AtomicU64 = std::sync::atomic::AtomicU64::new(0);

/// Runs one operation of the plan's T2 stage in a child process with address-space and CPU limits.
/// Returns (class, detail) if the child did not return.
fn run_child(p: &Plan, op: &str) -> Option<(&'static str, String)> {
    use std::os::unix::process::ExitStatusExt;
    let seq = CHILD_SEQ.fetch_add(1, std::sync::atomic::Ordering::Relaxed);
    let file = std::env::temp_dir().join(format!("c15-child-{}-{seq}.json", std::process::id()));
    std::fs::write(&file, serde_json::to_string(&json!({"plan": p, "identity": ""})).expect("plan serialises")).expect("harness: cannot write child plan");
    let exe = std::env::current_exe().expect("harness: own path");
    let res = std::process::Command::new("sh")
        .arg("-c")
        .arg("ulimit -v 150000; ulimit -t 20; ulimit -c 0; exec \"$0\" C15 --replay \"$1\"")
        .arg(&exe)
        .arg(&file)
        .env("C15_CHILD", op)
        .output();
    let _ = std::fs::remove_file(&file);
    let o = res.expect("harness: cannot start child");
    let err = String::from_utf8_lossy(&o.stderr);
    // without the thread id, which differs from process to process
    let first: String = err.lines().find(|l| !l.trim().is_empty()).unwrap_or("").chars().filter(|c| !c.is_ascii_digit()).collect();
    if err.contains("overflowed its stack") {
        return Some(("stack-overflow", first));
    }
    if err.contains("memory allocation") {
        return Some(("abort-alloc", first));
    }
    match (o.status.code(), o.status.signal()) {
        (Some(0), _) => None,
        (Some(101), _) => Some(("panic", first)),
        (_, Some(9)) | (_, Some(24)) | (Some(137), _) | (Some(152), _) => Some(("runaway", "CPU limit of 20 s reached".into())),
        (c, sg) => Some(("abort-alloc", format!("child ended with code {c:?} signal {sg:?}: {first}"))),
    }
}

/// Child side: perform the operation on the damaged media and leave (0 = it returned, 101 = it panicked).
fn child_main(p: &Plan, op: &str) -> ! {
    let n = p.njars();
    let damaged: Vec<Vec<u8>> = (0..n).map(|j| build(p.jar(j), &p.damage.iter().filter(|d| d.jar == j).collect::<Vec<_>>())).collect();
    let ios: Vec<IoPlan> = (0..n).map(|j| p.io_of(j)).collect();
    let qcal: QCal = retag(to_quill::<2>(&p.calamus, order(p.order_cal).as_mut()).expect("calamus admissible for quill"));
    let qmap: QMap = retag(to_quill::<2>(&p.mappings, order(p.order_map).as_mut()).expect("mappings admissible for quill"));
    if op == "dump" {
        // debugging aid: the delivered archives of the plan
        for (j, b) in damaged.iter().enumerate() {
            let d = SimJar::new(b.clone(), &ios[j]).delivered();
            let _ = std::fs::write(std::env::temp_dir().join(format!("c15-dump-{j}.jar")), d);
        }
        std::process::exit(0)
    }
    let main = SimJar::new(damaged[0].clone(), &ios[0]);
    let libs: Vec<SimJar> = damaged[1..].iter().zip(ios[1..].iter()).map(|(b, io)| SimJar::new(b.clone(), io)).collect();
    let r = if op == "detect" { no_panic(|| real_pairs(&main).is_ok()) } else { no_panic(|| real_add(&main, &libs, &qcal, &qmap).is_ok()) };
    std::process::exit(if r.is_ok() { 0 } else { 101 })
}

struct RealOut {
    pairs: Result<anyhow::Result<Vec<(MRef, MRef)>>, String>,
    add: Result<anyhow::Result<Result<MapSet, String>>, String>,
    fuel: bool,
}

fn run_real(jar_bytes: &[Vec<u8>], ios: &[IoPlan], cal: &QCal, map: &QMap, st: &mut RunStats) -> RealOut {
    let main = SimJar::new(jar_bytes[0].clone(), &ios[0]);
    let libs: Vec<SimJar> = jar_bytes[1..].iter().zip(ios[1..].iter()).map(|(b, io)| SimJar::new(b.clone(), io)).collect();
    let pairs = no_panic(|| real_pairs(&main));
    let add = no_panic(|| real_add(&main, &libs, cal, map));
    let mut fuel = main.fuel_exhausted();
    main.report(st);
    for l in &libs {
        fuel |= l.fuel_exhausted();
        l.report(st);
    }
    RealOut { pairs, add, fuel }
}

fn digest_out(obs: &mut Digest, r: &RealOut) {
    match &r.pairs {
        Ok(Ok(p)) => {
            let mut v: Vec<String> = p.iter().map(|(b, d)| format!("{}>{}", show(b), show(d))).collect();
            v.sort();
            obs.u64(1);
            for x in v {
                obs.str(&x);
            }
        }
        Ok(Err(_)) => obs.u64(2),
        Err(_) => obs.u64(3),
    }
    match &r.add {
        Ok(Ok(Ok(m))) => {
            obs.u64(1);
            obs.str(&serde_json::to_string(m).unwrap_or_default());
        }
        Ok(Ok(Err(_))) => obs.u64(4),
        Ok(Err(_)) => obs.u64(2),
        Err(_) => obs.u64(3),
    }
}

// ------------------------------------------------------------------------------------------------
// engine

fn probe_name(prefix: &str, kind: &str) -> &'static str {
    // probes are &'static str: a closed table
    const T: [(&str, &str, &str); 27] = [
        ("cov_ret", "pattern.cov_ret", "near.cov_ret"),
        ("param_obj", "pattern.param_obj", "near.param_obj"),
        ("param_bound", "pattern.param_bound", "near.param_bound"),
        ("same_twice", "pattern.same_twice", "near.same_twice"),
        ("super_call", "pattern.super_call", "near.super_call"),
        ("flagged_incompat", "pattern.flagged_incompat", "near.flagged_incompat"),
        ("flagged_noninh", "pattern.flagged_noninh", "near.flagged_noninh"),
        ("nonsynth", "pattern.nonsynth", "near.nonsynth"),
        ("bridge_flag_only", "pattern.bridge_flag_only", "near.bridge_flag_only"),
        ("synth_attr_only", "pattern.synth_attr_only", "near.synth_attr_only"),
        ("zero_calls", "pattern.zero_calls", "near.zero_calls"),
        ("no_code", "pattern.no_code", "near.no_code"),
        ("indy_only", "pattern.indy_only", "near.indy_only"),
        ("two_distinct", "pattern.two_distinct", "near.two_distinct"),
        ("array_callee", "pattern.array_callee", "near.array_callee"),
        ("arity", "pattern.arity", "near.arity"),
        ("prim_ref", "pattern.prim_ref", "near.prim_ref"),
        ("prim_prim", "pattern.prim_prim", "near.prim_prim"),
        ("unrelated", "pattern.unrelated", "near.unrelated"),
        ("reversed", "pattern.reversed", "near.reversed"),
        ("void_value", "pattern.void_value", "near.void_value"),
        ("array_obj", "pattern.array_obj", "near.array_obj"),
        ("array_elem", "pattern.array_elem", "near.array_elem"),
        ("private", "pattern.private", "near.private"),
        ("static", "pattern.static", "near.static"),
        ("final", "pattern.final", "near.final"),
        ("accessor", "pattern.accessor", "near.accessor"),
    ];
    for (k, a, b) in T {
        if k == kind {
            return if prefix == "pattern" { a } else { b };
        }
    }
    if prefix == "pattern" {
        "pattern.other"
    } else {
        "near.other"
    }
}

fn jar_faults(f: &mut Rng, len: u64) -> Fault {
    // the end of an archive holds the central directory: aim there half of the time
    let tail = len.saturating_sub(len.min(22 + 46 * 4 + f.below(200)));
    let aimed = f.chance(50);
    let at = if aimed { f.range(tail, len.saturating_sub(1)) } else { f.below(len.max(1)) };
    match f.below(8) {
        0 | 1 => Fault::Eof { at: if f.chance(10) { len.saturating_sub(1) } else { at } },
        2 | 3 => Fault::Flip { off: at, bit: f.below(8) as u8 },
        4 | 5 => {
            let span = if f.chance(50) { 8 } else { 60 };
            Fault::Eio { at_call: f.below(span) as u32, sticky: f.chance(50) }
        }
        6 => Fault::EioAtOffset { off: at },
        _ => Fault::SeekFail { at_call: f.below(12) as u32 },
    }
}

fn aim_damage(f: &mut Rng, p: &Plan, j: usize) -> Option<Damage> {
    let jar = p.jar(j);
    if jar.classes.is_empty() {
        return None;
    }
    let ci = f.usize(jar.classes.len());
    let enc = encode_class(jar, ci);
    let style = f.below(10);
    // spans the visitor of the code under test does not decode: in the main jar class-level and field-level
    // attributes, in a library everything behind the class header
    let spans: Vec<&refclass::FieldSpan> = enc
        .map
        .iter()
        .filter(|s| {
            if style == 9 {
                // the super type indices of the class header
                s.path == "super_class" || s.path.starts_with("interface[")
            } else if style < 7 {
                if j == 0 {
                    matches!(s.kind, SpanKind::Attribute { .. }) && !s.path.starts_with("method[")
                } else {
                    matches!(s.kind, SpanKind::Field(_) | SpanKind::Method(_) | SpanKind::Attribute { .. })
                }
            } else {
                false
            }
        })
        .filter(|s| s.len > 0)
        .collect();
    let (off, aim) = if !spans.is_empty() {
        let s = *f.pick(&spans);
        (s.start + f.usize(s.len), if style == 9 { "header-index" } else if j == 0 { "skipped-attr" } else { "lib-body" })
    } else {
        (f.usize(enc.bytes.len()), "any")
    };
    Some(Damage { jar: j, class: jar.classes[ci].name.clone(), off: off as u32, bit: f.below(8) as u8, aim: aim.into() })
}

impl Engine for C15 {
    type Plan = Plan;
    fn id(&self) -> &'static str {
        "C15"
    }
    fn runs(&self, tier: Tier) -> u64 {
        match tier {
            Tier::Quick => 40_000,
            Tier::Thorough => 2_000_000,
        }
    }

    fn gen(&self, rng: &mut Rng, _tier: Tier, _run: u64) -> Plan {
        let mut w = rng.split("workload");
        let mut s = rng.split("schedule");
        let mut f = rng.split("faults");
        let size = match w.below(10) {
            0..=2 => 0,
            3..=6 => 1,
            _ => 2,
        };
        let d = gen::draw(&mut w, size);
        let mut p = Plan {
            main: d.main,
            libs: d.libs,
            calamus: d.calamus,
            mappings: d.mappings,
            order_cal: if w.chance(40) { 0 } else { w.next() | 1 },
            order_map: if w.chance(40) { 0 } else { w.next() | 1 },
            io: vec![],
            damage: vec![],
            run: _run,
            lazy: vec![],
            file_route: 0,
        };
        let n = p.njars();
        p.io = vec![IoPlan::plain(); n];
        let mode = s.below(20);
        // 0..=4 plain only, 5..=10 legal noise, 11..=19 faults (half of them on top of legal noise)
        if (5..=10).contains(&mode) || (mode >= 11 && s.chance(50)) {
            let mut any = false;
            for j in 0..n {
                if s.chance(65) {
                    p.io[j] = IoPlan::gen_legal(&mut s);
                    any |= !p.io[j].is_plain();
                }
            }
            if !any {
                p.io[0] = IoPlan::gen_legal(&mut s);
            }
        }
        if mode >= 11 {
            let nf = f.range(1, 2);
            for _ in 0..nf {
                let j = if n == 1 || f.chance(60) { 0 } else { 1 + f.usize(n - 1) };
                if f.chance(45) {
                    if let Some(d) = aim_damage(&mut f, &p, j) {
                        p.damage.push(d);
                        continue;
                    }
                }
                let len = build(p.jar(j), &[]).len() as u64;
                let fault = jar_faults(&mut f, len);
                p.io[j].faults.push(fault);
            }
        }
        // ---- the entry-level seam
        {
            let mut fr = rng.split("file-route");
            if fr.chance(10) {
                p.file_route = 1 + fr.below(3) as u8;
            }
        }
        let mut z = rng.split("lazy-jar");
        if z.chance(35) {
            for j in 0..n {
                let nent = p.jar(j).classes.len() as u64 + 3;
                // detection walks the main jar once, the mappings step walks every jar once more
                let span = 4 * nent * if j == 0 { 2 } else { 1 } + 4;
                let mut l = crate::simjar::LazyPlan::draw(&mut z, span, nent * if j == 0 { 2 } else { 1 });
                if j != 0 && z.chance(60) {
                    l.fail_at.clear();
                    l.read_fault = None;
                }
                if j == 0 && z.chance(60) {
                    // an I/O error in the middle of one class of the main jar during the detection walk (the first
                    // nent parses): the place where a swallowed error loses a bridge (missed seeded change C15-8)
                    l.fail_at.clear();
                    l.read_fault = Some((z.below(nent) as u32, z.below(1000) as u32));
                }
                p.lazy.push(l);
            }
        }
        p
    }

    fn exec(&self, p: &Plan, st: &mut RunStats) -> Vec<Violation> {
        if let Ok(op) = std::env::var("C15_CHILD") {
            child_main(p, &op);
        }
        let mut out = vec![];
        let n = p.njars();
        let mut obs = Digest::new();
        // ---------------- the reference on the intended input
        let specs: Vec<Vec<RClass>> = (0..n).map(|j| p.jar(j).classes.iter().map(rclass_of_spec).collect()).collect();
        let healthy: Vec<Vec<u8>> = (0..n).map(|j| build(p.jar(j), &[])).collect();
        // acyclic hierarchies only (quantifier: class hierarchies)
        if hierarchy_risk(&healthy).is_some() {
            st.probe("inadmissible.cyclic_hierarchy");
            return out;
        }
        let mut notes = rb::Notes::default();
        let pairs = rb::detect(&specs[0], &mut notes).unwrap_or_else(|e| panic!("harness: inadmissible workload: {e}"));
        let applied = rb::apply(&specs[0], &specs[1..], &p.calamus, &p.mappings, &pairs);
        {
            // at most one bridge per delegate and class (property quantifier); otherwise the run is not evaluated
            let mut seen = BTreeSet::new();
            for ch in &applied.changes {
                if !seen.insert((ch.class.clone(), ch.key.clone())) {
                    st.probe("inadmissible.two_bridges_one_delegate");
                    return out;
                }
            }
        }
        self.probes(p, &specs, &pairs, &applied, &notes, st);
        let mut shape = Digest::new();
        shape.u64(n as u64);
        for j in 0..n {
            shape.u64(p.jar(j).classes.len() as u64);
        }
        for c in &p.main.classes {
            for m in &c.methods {
                shape.str(&m.kind);
            }
        }
        shape.u64(p.calamus.count() as u64);
        shape.u64(p.mappings.count() as u64);
        st.shape = shape.0;

        let qcal: QCal = retag(to_quill::<2>(&p.calamus, order(p.order_cal).as_mut()).expect("calamus admissible for quill"));
        let qmap: QMap = retag(to_quill::<2>(&p.mappings, order(p.order_map).as_mut()).expect("mappings admissible for quill"));
        let plain = vec![IoPlan::plain(); n];

        // ---------------- T0
        st.tier("T0");
        let t0 = run_real(&healthy, &plain, &qcal, &qmap, st);
        digest_out(&mut obs, &t0);
        let mut t0_pairs: Option<Vec<(MRef, MRef)>> = None;
        let mut t0_map: Option<MapSet> = None;
        match &t0.pairs {
            Err(pm) => out.push(Violation::new("T0", "panic", format!("detect:{}", panic_path(pm)), pm.clone())),
            Ok(Err(e)) => out.push(Violation::new("T0", "refused-wellformed", "get_specialized_methods", format!("{e:#}"))),
            Ok(Ok(rp)) => {
                cmp_pairs("T0", "semantic-mismatch", p, rp, &pairs, &mut out);
                t0_pairs = Some(rp.clone());
            }
        }
        match &t0.add {
            Err(pm) => out.push(Violation::new("T0", "panic", format!("add:{}", panic_path(pm)), pm.clone())),
            Ok(Err(e)) => out.push(Violation::new("T0", "refused-wellformed", "add_specialized_methods_to_mappings", format!("{e:#}"))),
            Ok(Ok(Err(e))) => out.push(Violation::new("T0", "invalid-output", "mappings.inconsistent", e.clone())),
            Ok(Ok(Ok(m))) => {
                let agree = t0_pairs.is_some() && out.is_empty();
                cmp_map("T0", "semantic-mismatch", p, m, &applied, agree, &mut out);
                t0_map = Some(m.clone());
            }
        }
        if t0.fuel {
            out.push(Violation::new("T0", "runaway", "jar", "fuel exhausted on a plain medium"));
        }

        let ios: Vec<IoPlan> = (0..n).map(|j| p.io_of(j)).collect();
        let any_fault = ios.iter().any(|io| !io.legal_only()) || !p.damage.is_empty();
        let any_noise = ios.iter().any(|io| !io.is_plain());

        // ---------------- T1
        if any_noise && !any_fault {
            st.tier("T1");
            let t1 = run_real(&healthy, &ios, &qcal, &qmap, st);
            digest_out(&mut obs, &t1);
            if t1.fuel {
                out.push(Violation::new("T1", "runaway", "jar", "fuel exhausted under legal I/O"));
            }
            match (&t1.pairs, &t0_pairs) {
                (Err(pm), _) => out.push(Violation::new("T1", "panic", format!("detect:{}", panic_path(pm)), pm.clone())),
                (Ok(Err(e)), Some(_)) => out.push(Violation::new("T1", "schedule-dependence", "detect.result", format!("legal short/interrupted reads made it fail: {e:#}"))),
                (Ok(Ok(a)), Some(b)) => {
                    if a != b {
                        out.push(Violation::new("T1", "schedule-dependence", "detect.pairs", format!("{} pairs vs {} on plain media (or another order)", a.len(), b.len())));
                    }
                }
                _ => {}
            }
            match (&t1.add, &t0_map) {
                (Err(pm), _) => out.push(Violation::new("T1", "panic", format!("add:{}", panic_path(pm)), pm.clone())),
                (Ok(Err(e)), Some(_)) => out.push(Violation::new("T1", "schedule-dependence", "add.result", format!("legal short/interrupted reads made it fail: {e:#}"))),
                (Ok(Ok(Ok(a))), Some(b)) => {
                    if let Some((path, d)) = b.diff_path(a) {
                        out.push(Violation::new("T1", "schedule-dependence", format!("add.{path}"), d));
                    }
                }
                (Ok(Ok(Err(e))), Some(_)) => out.push(Violation::new("T1", "invalid-output", "mappings.inconsistent", e.clone())),
                _ => {}
            }
        }

        // ---------------- T2
        if any_fault {
            st.tier("T2");
            let damaged: Vec<Vec<u8>> = (0..n)
                .map(|j| {
                    let d: Vec<&Damage> = p.damage.iter().filter(|d| d.jar == j).collect();
                    if d.is_empty() {
                        healthy[j].clone()
                    } else {
                        build(p.jar(j), &d)
                    }
                })
                .collect();
            for d in &p.damage {
                let applies = d.jar < n && p.jar(d.jar).classes.iter().any(|c| c.name == d.class);
                if applies {
                    st.fired(&["class_flip"]);
                    match d.aim.as_str() {
                        "skipped-attr" => st.probe("t2.damage_in_skipped_attr"),
                        "lib-body" => st.probe("t2.damage_in_lib_body"),
                        "header-index" => st.probe("t2.damage_in_super_type_index"),
                        _ => st.probe("t2.damage_anywhere"),
                    }
                }
            }
            'cmp: {
            if !p.damage.is_empty() {
                let delivered: Vec<Vec<u8>> = (0..n).map(|j| SimJar::new(damaged[j].clone(), &ios[j]).delivered()).collect();
                if let Some(why) = hierarchy_risk(&delivered) {
                    // the code under test recurses over super types: not in this process
                    st.probe("t2.child.cyclic_hierarchy");
                    for op in ["detect", "add"] {
                        match run_child(p, op) {
                            None => st.probe("t2.child.returned"),
                            Some((class, detail)) => {
                                // a cyclic hierarchy is outside the property's quantifier (the jar is damaged) and the
                                // property does not promise totality of this code: counted and shown, never a violation
                                obs.str(class);
                                let _ = (why, detail);
                                st.probe(match class {
                                    "stack-overflow" => "t2.child.cyclic_hierarchy.stack_overflow",
                                    "abort-alloc" => "t2.child.cyclic_hierarchy.alloc_abort",
                                    _ => "t2.child.cyclic_hierarchy.died",
                                });
                            }
                        }
                    }
                    break 'cmp;
                }
            }
            let t2 = run_real(&damaged, &ios, &qcal, &qmap, st);
            digest_out(&mut obs, &t2);
            if t2.fuel {
                out.push(Violation::new("T2", "runaway", "jar", "fuel exhausted"));
            }
            if let Err(pm) = &t2.pairs {
                out.push(Violation::new("T2", "panic", format!("detect:{}", panic_path(pm)), pm.clone()));
            }
            if let Err(pm) = &t2.add {
                out.push(Violation::new("T2", "panic", format!("add:{}", panic_path(pm)), pm.clone()));
            }
            let pairs_ok = matches!(&t2.pairs, Ok(Ok(_)));
            let add_ok = matches!(&t2.add, Ok(Ok(_)));
            if matches!(&t2.pairs, Ok(Err(_))) {
                st.probe("t2.detect_err");
            }
            if matches!(&t2.add, Ok(Err(_))) {
                st.probe("t2.add_err");
            }
            if pairs_ok || add_ok {
                // what did the media deliver?
                let mut del: Vec<Vec<RClass>> = vec![];
                let mut problem: Option<(bool, String)> = None; // (unreadable archive?, why)
                for j in 0..n {
                    let bytes = SimJar::new(damaged[j].clone(), &ios[j]).delivered();
                    match classes_of_delivered(&bytes) {
                        Delivered::Classes(v) => del.push(v),
                        Delivered::Unreadable(e) => {
                            // the detection alone never reads the libraries
                            if j == 0 || add_ok {
                                problem = Some((true, format!("jar {j}: {e}")));
                            }
                            del.push(vec![]);
                        }
                        Delivered::Unparsable(e) => {
                            if j == 0 || add_ok {
                                problem = problem.or(Some((false, format!("jar {j}: {e}"))));
                            }
                            del.push(vec![]);
                        }
                    }
                }
                match problem {
                    Some((true, why)) => out.push(Violation::new("T2", "reader-ok-with-wrong-data", "ok-on-unreadable-archive", format!("the operation returned Ok although the delivered archive cannot be read back: {why}"))),
                    Some((false, _)) => st.probe("lenient_accept"),
                    None => {
                        let mut n2 = rb::Notes::default();
                        match rb::detect(&del[0], &mut n2) {
                            Err(_) => st.probe("t2.delivered_inadmissible"),
                            Ok(dp) => {
                                let n_before = out.len();
                                if let Ok(Ok(rp)) = &t2.pairs {
                                    cmp_pairs("T2", "reader-ok-with-wrong-data", p, rp, &dp, &mut out);
                                }
                                let agree = matches!(&t2.pairs, Ok(Ok(_))) && out.len() == n_before;
                                if let Ok(Ok(Ok(m))) = &t2.add {
                                    let ap = rb::apply(&del[0], &del[1..], &p.calamus, &p.mappings, &dp);
                                    let mut keys = BTreeSet::new();
                                    if ap.changes.iter().all(|c| keys.insert((c.class.clone(), c.key.clone()))) {
                                        cmp_map("T2", "reader-ok-with-wrong-data", p, m, &ap, agree, &mut out);
                                    } else {
                                        st.probe("t2.delivered_inadmissible");
                                    }
                                    st.probe("t2.ok_compared");
                                    if !p.damage.is_empty() {
                                        st.probe("t2.ok_with_class_damage");
                                    }
                                }
                                if let Ok(Ok(Err(e))) = &t2.add {
                                    out.push(Violation::new("T2", "invalid-output", "mappings.inconsistent", e.clone()));
                                }
                            }
                        }
                    }
                }
            }
            }
            // heal: healthy media, same operation, T0 answer
            let again = run_real(&healthy, &plain, &qcal, &qmap, st);
            match (&again.add, &t0_map) {
                (Ok(Ok(Ok(a))), Some(b)) => {
                    st.probe("heal.ok");
                    if let Some((path, d)) = b.diff_path(a) {
                        out.push(Violation::new("T2", "residue-after-heal", format!("add.{path}"), d));
                    }
                }
                (Ok(Ok(Ok(_))), None) => {}
                (_, Some(_)) => out.push(Violation::new("T2", "residue-after-heal", "add.result", "the healthy retry failed")),
                _ => {}
            }
            if let (Ok(Ok(a)), Some(b)) = (&again.pairs, &t0_pairs) {
                if a != b {
                    out.push(Violation::new("T2", "residue-after-heal", "detect.pairs", "the healthy retry detects other pairs"));
                }
            }
        }
        // ---------------- the entry-level seam: the same (undamaged) jars behind LazyJars
        if p.lazy.len() == n {
            use crate::simjar::{open_entries, LazyJar};
            let jars: Option<Vec<LazyJar>> = (0..n).map(|j| open_entries(&healthy[j]).ok().map(|e| LazyJar::new(e, &p.lazy[j]))).collect();
            if let Some(jars) = jars {
                let pairs = no_panic(|| real_pairs(&jars[0]));
                let failed_detect = jars[0].failed() > 0;
                let add = no_panic(|| real_add(&jars[0], &jars[1..], &qcal, &qmap));
                let failed = jars.iter().any(|j| j.failed() > 0);
                for j in &jars {
                    j.report(st);
                }
                st.tier(if failed { "T2" } else { "T1" });
                obs.u64(0x1a2);
                let lazy_out = RealOut { pairs, add, fuel: false };
                digest_out(&mut obs, &lazy_out);
                let t = |f: bool| if f { "T2" } else { "T1" };
                match (&lazy_out.pairs, &t0_pairs) {
                    (Err(pm), _) => out.push(Violation::new(t(failed_detect), "panic", format!("detect:{}", panic_path(pm)), pm.clone())),
                    (Ok(Err(_)), _) if failed_detect => st.probe("lazy.err_after_failed_entry_operation"),
                    (Ok(Err(e)), Some(_)) => out.push(Violation::new("T1", "schedule-dependence", "lazy.detect.result", format!("fails on a jar that hands out its entries one by one although no entry operation failed: {e:#}"))),
                    (Ok(Ok(a)), Some(b)) => {
                        // the data is intact whatever failed in between: an answer must be THE answer
                        if a != b {
                            let class = if failed_detect { "reader-ok-with-wrong-data" } else { "schedule-dependence" };
                            out.push(Violation::new(t(failed_detect), class, "lazy.detect.pairs", format!("{} pairs vs {} for the zip-backed jar (or another order)", a.len(), b.len())));
                        }
                    }
                    _ => {}
                }
                match (&lazy_out.add, &t0_map) {
                    (Err(pm), _) => out.push(Violation::new(t(failed), "panic", format!("add:{}", panic_path(pm)), pm.clone())),
                    (Ok(Err(_)), _) if failed => st.probe("lazy.err_after_failed_entry_operation"),
                    (Ok(Err(e)), Some(_)) => out.push(Violation::new("T1", "schedule-dependence", "lazy.add.result", format!("fails on jars that hand out their entries one by one although no entry operation failed: {e:#}"))),
                    (Ok(Ok(Ok(a))), Some(b)) => {
                        if failed {
                            st.probe("lazy.ok_after_failed_entry_operation");
                        }
                        if let Some((path, d)) = b.diff_path(a) {
                            let class = if failed { "reader-ok-with-wrong-data" } else { "schedule-dependence" };
                            out.push(Violation::new(t(failed), class, format!("lazy.add.{path}"), d));
                        }
                    }
                    (Ok(Ok(Err(e))), Some(_)) => out.push(Violation::new(t(failed), "invalid-output", "lazy.mappings.inconsistent", e.clone())),
                    _ => {}
                }
            }
        }
        // ---------------- the jars as files on the simulated disk, behind dukebox's FileJar
        if p.file_route != 0 && t0_pairs.is_some() && t0_map.is_some() {
            use crate::simjar::{build_jar, open_entries, EntryData};
            st.tier("T1");
            st.probe("file_route");
            st.nontrivial = true;
            let mut dir = crate::simdir::SimDir::new("c15");
            let names: Vec<String> = (0..n).map(|j| if j == 0 { "main.jar".to_string() } else { format!("lib{}.jar", j - 1) }).collect();
            let mut padded_real: Vec<Option<Vec<u8>>> = vec![];
            if p.file_route >= 2 {
                // earlier content of the same paths: the same classes, every one directly below java/lang/Object
                for j in 0..n {
                    let mut entries = open_entries(&healthy[j]).unwrap_or_default();
                    for (name, d) in entries.iter_mut() {
                        if let (true, EntryData::File(b)) = (name.ends_with(".class"), &mut *d) {
                            if let Ok(mut sem) = refclass::parse(b) {
                                sem.super_class = Some(refclass::JStr::from_str("java/lang/Object"));
                                sem.interfaces.clear();
                                if let Ok(e) = refclass::encode(&sem, &refclass::Layout::default()) {
                                    *b = e.bytes;
                                }
                            }
                        }
                    }
                    let mut decoy = build_jar(&entries, false);
                    if p.file_route == 3 {
                        // same length as the jar that replaces it (a pad entry in each, stored), and the replacement keeps
                        // the modification time: a cache validated by size and / or mtime does not see the change
                        // (seeded change C13-13: FileJar::open remembered per path, validated by size)
                        let mut real_entries = open_entries(&healthy[j]).unwrap_or_default();
                        let real0 = build_jar(&real_entries, false);
                        let (pd, pr) = (real0.len().saturating_sub(decoy.len()), decoy.len().saturating_sub(real0.len()));
                        entries.push(("pad.bin".to_string(), EntryData::File(vec![b'p'; pd])));
                        real_entries.push(("pad.bin".to_string(), EntryData::File(vec![b'p'; pr])));
                        decoy = build_jar(&entries, false);
                        let real = build_jar(&real_entries, false);
                        if decoy.len() == real.len() {
                            padded_real.push(Some(real));
                        } else {
                            padded_real.push(None);
                        }
                    }
                    dir.create(&names[j], &decoy);
                }
                let jars: Vec<dukebox::storage::FileJar> = names.iter().map(|nm| dukebox::storage::FileJar { path: dir.join(nm) }).collect();
                let _ = no_panic(|| real_pairs(&jars[0]));
                let _ = no_panic(|| real_add(&jars[0], &jars[1..], &qcal, &qmap));
                st.probe("file_route.paths_used_before");
                for j in 0..n {
                    match padded_real.get(j) {
                        Some(Some(real)) => {
                            dir.overwrite_keep_mtime(&names[j], real);
                            st.probe("file_route.same_size_same_mtime");
                        }
                        _ => dir.overwrite(&names[j], &healthy[j]),
                    }
                }
            } else {
                for j in 0..n {
                    dir.create(&names[j], &healthy[j]);
                }
            }
            st.events += 3 * n as u64;
            st.sched.u64(0xF11E ^ p.file_route as u64);
            let jars: Vec<dukebox::storage::FileJar> = names.iter().map(|nm| dukebox::storage::FileJar { path: dir.join(nm) }).collect();
            let pairs = no_panic(|| real_pairs(&jars[0]));
            let add = no_panic(|| real_add(&jars[0], &jars[1..], &qcal, &qmap));
            let class = if p.file_route >= 2 { "residue-after-heal" } else { "schedule-dependence" };
            match (&pairs, &t0_pairs) {
                (Err(pm), _) => out.push(Violation::new("T1", "panic", format!("file.detect:{}", panic_path(pm)), pm.clone())),
                (Ok(Err(e)), Some(_)) => out.push(Violation::new("T1", class, "file.detect.result", format!("fails on the jar stored as a file: {e:#}"))),
                (Ok(Ok(a)), Some(b)) => {
                    let (mut a, mut b) = (a.clone(), b.clone());
                    a.sort();
                    b.sort();
                    if a != b {
                        out.push(Violation::new("T1", class, "file.detect.pairs", format!("{} pairs vs {} for the in-memory jar", a.len(), b.len())));
                    }
                }
                _ => {}
            }
            match (&add, &t0_map) {
                (Err(pm), _) => out.push(Violation::new("T1", "panic", format!("file.add:{}", panic_path(pm)), pm.clone())),
                (Ok(Err(e)), Some(_)) => out.push(Violation::new("T1", class, "file.add.result", format!("fails on the jars stored as files: {e:#}"))),
                (Ok(Ok(Ok(m))), Some(b)) => {
                    if let Some((path, d)) = b.diff_path(m) {
                        out.push(Violation::new("T1", class, format!("file.add.{path}"), d));
                    }
                }
                (Ok(Ok(Err(e))), Some(_)) => out.push(Violation::new("T1", "invalid-output", "file.mappings.inconsistent", e.clone())),
                _ => {}
            }
        }
        st.obs = obs;
        out
    }

    fn shrink(&self, p: &Plan) -> Vec<Plan> {
        let mut c = vec![];
        if p.file_route != 0 {
            let mut q = p.clone();
            q.file_route = 0;
            c.push(q);
            if p.file_route >= 2 {
                let mut q = p.clone();
                q.file_route = 1;
                c.push(q);
            }
        }
        if !p.lazy.is_empty() {
            let mut q = p.clone();
            q.lazy.clear();
            c.push(q);
            for j in 0..p.lazy.len() {
                for l in p.lazy[j].smaller() {
                    let mut q = p.clone();
                    q.lazy[j] = l;
                    c.push(q);
                }
            }
        }
        c.extend(shrink_plan_c15(p).into_iter().map(|mut q| {
            // a plan with fewer jars has no use for the per-jar list
            if q.lazy.len() != q.njars() {
                q.lazy.clear();
            }
            q
        }));
        c
    }
    fn size(&self, p: &Plan) -> (u64, u64) {
        let mut ops = (p.calamus.count() + p.mappings.count()) as u64;
        for j in 0..p.njars() {
            for c in &p.jar(j).classes {
                ops += 1 + c.methods.len() as u64 + c.fields.len() as u64;
            }
        }
        (ops + !p.lazy.is_empty() as u64, p.io.iter().map(|io| io.faults.len()).sum::<usize>() as u64 + p.damage.len() as u64 + p.lazy.iter().map(|l| l.faults()).sum::<usize>() as u64)
    }
    fn rule(&self) -> String {
        "one run = one main jar + 0-2 library jars of template classes (type universe and 1-4 bridge families of 1-4 levels; classes, interfaces; super types in the main jar, only in a library, or nowhere; 27 bridge / near-miss templates; random class-file layout, stored or deflated, shuffled archive order, non-class entries) x calamus and named mapping sets naming or not naming bridge, delegate and the declarations above them x two insertion orders x one I/O schedule per jar (chunk ceiling, short %, EINTR %) x 0-2 faults (EOF, flipped jar byte, EIO at call / at offset, failing seek, flipped class-file bit aimed at structures the visitor skips or at the super type indices of the header); non-trivial = a short transfer, EINTR or fault fired; distinct by (workload shape digest, I/O event-log digest)".into()
    }
    fn assumptions(&self) -> Vec<String> {
        vec![
            "'synthetic' = the ACC_SYNTHETIC access flag; a Synthetic attribute alone does not make a method a candidate (statement silent; the code's choice; counted by probe ref.synthetic_attr_only)".into(),
            "'invokes a method' = an invokevirtual/-special/-static/-interface instruction; two instructions naming the same (owner, name, descriptor) are one method whether or not the constant is an InterfaceMethodref; invokedynamic is not counted (statement silent; the code's choice). A method of an array class ([Ljava/lang/Object;.clone) IS counted as an invoked method: the statement says 'exactly one distinct method' without exception".into(),
            "'bridge-compatible' at one position: equal types, or both class types and the bridge side is java/lang/Object or a (transitive) super type of the other side according to the class headers of the main jar. Where the main jar does not define a class needed to decide, the code's answer is adopted: bridge-side type undefined -> compatible; an ancestor of the delegate-side type undefined -> compatible; the delegate-side type itself undefined (and the bridge side defined) -> incompatible. Array types are compatible with themselves only. Only the main jar is consulted, libraries are not (probes ref.adopted_*)".into(),
            "'the target name the mappings (through inheritance) give to the bridge': the entry of the bridge's class, else depth-first through its super types (super class, then interfaces in order; the first jar in [main, libraries...] defining a class decides its super types); a class the set does not name (absent or without a target name) ends that branch; no answer -> the bridge keeps its source name and the delegate receives that (statement silent; the code's choice). The same rule translates jar names to the key namespace through calamus".into(),
            "if the mapping set has no entry for the bridge's class nothing is written; an existing entry of the delegate keeps comment and parameters, only its names change".into(),
            "quantifier: runs in which two bridges of one class aim at the same delegate key are not evaluated (probe inadmissible.*); calamus is injective on classes; no class is defined twice; hierarchies are acyclic".into(),
            "under faults: Err is accepted; Ok is compared with the reference over the classes the delivered archives contain (zip crate as trusted reader); a delivered class the reference parser rejects while the real code answers Ok is counted (lenient_accept), not flagged".into(),
            "a delivered main or library jar whose class headers (read by a 60-line constant-pool walker) describe a cyclic hierarchy - possible only after a class-file bit flip - is not executed in the harness process: both operations run in a child process (`sh -c 'ulimit -v 150000; ulimit -t 20; exec sim C15 --replay <plan>'`, C15_CHILD=detect|add); only 'returned' vs. stack overflow / allocation failure / CPU limit / panic is judged there, results are not compared".into(),
            "harness profile: opt-level 2 with overflow checks and debug assertions".into(),
        ]
    }
    fn real_and_stub(&self) -> serde_json::Value {
        json!({
            "real": ["specialized_methods::add_specialized_methods_to_mappings", "specialized_methods::GetSpecializedMethods::get_specialized_methods", "dukebox::storage::{Jar, OpenedJar for ZipArchive<R>}::{read_classes_into, get_super_classes_provider}", "duke::read_class_multi", "quill::remapper::{BRemapperImpl, JarSuperProv}", "zip::ZipArchive (reading)"],
            "stub": ["jar byte source (SimJar -> SimReader per open)", "child process with address-space and CPU limits for inputs with a cyclic hierarchy", "zip::ZipWriter assembling the input jars", "refclass encoder producing the class files"],
            "reference": ["refbridge::{project, detect, apply}", "refclass::{parse, encode}", "refmap::MapSet"]
        })
    }
    fn expected_probes(&self) -> Vec<&'static str> {
        vec![
            "pattern.cov_ret", "pattern.param_obj", "pattern.param_bound", "pattern.same_twice", "pattern.super_call", "pattern.flagged_incompat", "pattern.flagged_noninh",
            "near.nonsynth", "near.bridge_flag_only", "near.synth_attr_only", "near.zero_calls", "near.no_code", "near.indy_only", "near.two_distinct", "near.array_callee", "near.arity", "near.prim_ref",
            "near.prim_prim", "near.unrelated", "near.reversed", "near.void_value", "near.array_obj", "near.array_elem", "near.private", "near.static", "near.final", "near.accessor",
            "bridge.flagged", "bridge.unflagged", "bridge.in_interface", "bridge.interface_parent",
            "name.own", "name.inherited1", "name.inherited2+", "name.unnamed", "name.cut_by_unnamed_class", "name.via_library_only_super", "super.missing", "super.library_only",
            "delegate.already_named", "delegate.new_entry", "delegate.other_class", "bridge.class_absent",
            "ref.adopted_unknown", "io.short_transfers", "io.eintr", "lenient_accept", "t2.ok_compared", "t2.ok_with_class_damage", "t2.add_err", "t2.damage_in_skipped_attr", "t2.damage_in_lib_body", "t2.damage_in_super_type_index", "t2.child.cyclic_hierarchy", "t2.child.returned", "heal.ok",
        ]
    }
}

impl C15 {
    fn probes(&self, p: &Plan, specs: &[Vec<RClass>], pairs: &[rb::Pair], applied: &rb::Applied, notes: &rb::Notes, st: &mut RunStats) {
        let is_pair: BTreeSet<&MRef> = pairs.iter().map(|x| &x.bridge).collect();
        for c in &p.main.classes {
            for m in &c.methods {
                if m.kind.is_empty() {
                    continue;
                }
                let r = (c.name.clone(), m.name.clone(), m.desc.clone());
                let intended = gen::KINDS.iter().find(|k| k.0 == m.kind).map_or(false, |k| k.2);
                if is_pair.contains(&r) {
                    st.probe(probe_name("pattern", &m.kind));
                    if !intended {
                        st.probe("template.near_miss_is_bridge_by_reference");
                    }
                } else {
                    st.probe(probe_name("near", &m.kind));
                    if intended {
                        st.probe("template.bridge_is_none_by_reference");
                    }
                }
            }
        }
        // where classes live
        let mut defined_main: BTreeMap<&str, &RClass> = BTreeMap::new();
        for c in &specs[0] {
            defined_main.insert(&c.name, c);
        }
        let mut defined_lib: BTreeMap<&str, &RClass> = BTreeMap::new();
        for l in &specs[1..] {
            for c in l {
                defined_lib.entry(&c.name).or_insert(c);
            }
        }
        for pr in pairs {
            st.probe(if pr.flagged { "bridge.flagged" } else { "bridge.unflagged" });
            if pr.adopted_unknown {
                st.probe("ref.adopted_unknown");
            }
            if pr.delegate.0 != pr.bridge.0 {
                st.probe("delegate.other_class");
            }
            if let Some(c) = p.main.classes.iter().find(|c| c.name == pr.bridge.0) {
                if c.access & ACC_INTERFACE != 0 {
                    st.probe("bridge.in_interface");
                }
            }
            // ancestors of the bridge's class over all jars
            let mut todo = vec![pr.bridge.0.as_str()];
            let mut seen = BTreeSet::new();
            let (mut lib_only, mut missing, mut iface_parent) = (false, false, false);
            while let Some(c) = todo.pop() {
                let rc = match (defined_main.get(c), defined_lib.get(c)) {
                    (Some(rc), _) => rc,
                    (None, Some(rc)) => {
                        lib_only = true;
                        rc
                    }
                    (None, None) => {
                        if !c.starts_with("java/") {
                            missing = true;
                        }
                        continue;
                    }
                };
                if !rc.ifs.is_empty() {
                    iface_parent = true;
                }
                for s in rc.sup.iter().chain(rc.ifs.iter()) {
                    if seen.insert(s.as_str()) {
                        todo.push(s);
                    }
                }
            }
            if lib_only {
                st.probe("super.library_only");
            }
            if missing {
                st.probe("super.missing");
            }
            if iface_parent {
                st.probe("bridge.interface_parent");
            }
        }
        let cal_back: BTreeMap<String, &str> = specs.iter().flatten().map(|c| (rb::map_class(&p.calamus, &c.name), c.name.as_str())).collect();
        for ch in &applied.changes {
            st.probe(match ch.how {
                "own" => "name.own",
                "inherited1" => "name.inherited1",
                "inherited2+" => "name.inherited2+",
                _ => "name.unnamed",
            });
            if ch.cut {
                st.probe("name.cut_by_unnamed_class");
            }
            if ch.path.iter().skip(1).any(|c| cal_back.get(c).map_or(false, |o| !defined_main.contains_key(o) && defined_lib.contains_key(o))) {
                st.probe("name.via_library_only_super");
            }
            if ch.path.iter().skip(1).any(|c| !cal_back.contains_key(c)) {
                st.probe("name.via_class_in_no_jar");
            }
            if ch.class_absent {
                st.probe("bridge.class_absent");
            } else if ch.delegate_present {
                st.probe("delegate.already_named");
            } else {
                st.probe("delegate.new_entry");
            }
        }
        st.probe_n("ref.adopted_unknown_bridge_type", notes.unknown_bridge_type);
        st.probe_n("ref.adopted_unknown_ancestor", notes.unknown_ancestor);
        st.probe_n("ref.adopted_unknown_specialized", notes.unknown_specialized);
        st.probe_n("ref.unknown_bridge_type_but_hierarchy_closed", notes.unknown_bridge_but_closed);
        st.probe_n("ref.synthetic_attr_only", notes.synthetic_attr_only);
        st.probe_n("ref.pairs", pairs.len() as u64);
    }
}

fn shrink_plan_c15(p: &Plan) -> Vec<Plan> {
    let mut c: Vec<Plan> = vec![];
    if !p.damage.is_empty() {
        // a plan whose T2 stage runs in child processes is expensive to execute: coarse steps only
        let n = p.njars();
        let delivered: Vec<Vec<u8>> = (0..n).map(|j| SimJar::new(build(p.jar(j), &p.damage.iter().filter(|d| d.jar == j).collect::<Vec<_>>()), &p.io_of(j)).delivered()).collect();
        if hierarchy_risk(&delivered).is_some() {
            for i in 0..p.damage.len() {
                let mut q = p.clone();
                q.damage.remove(i);
                c.push(q);
            }
            for i in 0..p.libs.len() {
                let mut q = p.clone();
                q.libs.remove(i);
                if q.io.len() > i + 1 {
                    q.io.remove(i + 1);
                }
                q.damage.retain(|d| d.jar != i + 1);
                for d in q.damage.iter_mut() {
                    if d.jar > i + 1 {
                        d.jar -= 1;
                    }
                }
                c.push(q);
            }
            if p.io.iter().any(|io| !io.is_plain()) {
                let mut q = p.clone();
                q.io = vec![IoPlan::plain(); n];
                c.push(q);
            }
            for j in 0..n {
                for i in 0..p.jar(j).classes.len() {
                    let mut q = p.clone();
                    q.jar_mut(j).classes.remove(i);
                    c.push(q);
                }
            }
            for k in p.mappings.classes.keys() {
                let mut q = p.clone();
                q.mappings.classes.remove(k);
                c.push(q);
            }
            for k in p.calamus.classes.keys() {
                let mut q = p.clone();
                q.calamus.classes.remove(k);
                c.push(q);
            }
            return c;
        }
    }
    // faults and noise first
    for i in 0..p.damage.len() {
        let mut q = p.clone();
        q.damage.remove(i);
        c.push(q);
    }
    for j in 0..p.io.len() {
        for io in shrink_io(&p.io[j]) {
            let mut q = p.clone();
            q.io[j] = io;
            c.push(q);
        }
    }
    // library jars
    for i in 0..p.libs.len() {
        let mut q = p.clone();
        q.libs.remove(i);
        if q.io.len() > i + 1 {
            q.io.remove(i + 1);
        }
        q.damage.retain(|d| d.jar != i + 1);
        for d in q.damage.iter_mut() {
            if d.jar > i + 1 {
                d.jar -= 1;
            }
        }
        c.push(q);
    }
    // classes
    for j in 0..p.njars() {
        let n = p.jar(j).classes.len();
        if n > 3 {
            for (a, b) in [(0, n / 2), (n / 2, n)] {
                let mut q = p.clone();
                q.jar_mut(j).classes.drain(a..b);
                c.push(q);
            }
        }
        for i in 0..n {
            let mut q = p.clone();
            q.jar_mut(j).classes.remove(i);
            c.push(q);
        }
    }
    // mapping entries
    for m in crate::c03::shrink_mapset(&p.mappings) {
        let mut q = p.clone();
        q.mappings = m;
        c.push(q);
    }
    for m in crate::c03::shrink_mapset(&p.calamus) {
        let mut q = p.clone();
        q.calamus = m;
        c.push(q);
    }
    // members
    for j in 0..p.njars() {
        for (ci, cl) in p.jar(j).classes.iter().enumerate() {
            for mi in 0..cl.methods.len() {
                let mut q = p.clone();
                q.jar_mut(j).classes[ci].methods.remove(mi);
                c.push(q);
                for k in 0..cl.methods[mi].calls.len() {
                    let mut q = p.clone();
                    q.jar_mut(j).classes[ci].methods[mi].calls.remove(k);
                    c.push(q);
                }
                if cl.methods[mi].extras != 0 {
                    let mut q = p.clone();
                    q.jar_mut(j).classes[ci].methods[mi].extras = 0;
                    c.push(q);
                }
            }
            if !cl.fields.is_empty() {
                let mut q = p.clone();
                q.jar_mut(j).classes[ci].fields.clear();
                c.push(q);
            }
            if cl.attrs != 0 {
                let mut q = p.clone();
                q.jar_mut(j).classes[ci].attrs = 0;
                c.push(q);
            }
            if cl.ifs.len() > 0 {
                for k in 0..cl.ifs.len() {
                    let mut q = p.clone();
                    q.jar_mut(j).classes[ci].ifs.remove(k);
                    c.push(q);
                }
            }
        }
        let js = p.jar(j);
        if js.layout != 0 || js.deflate || js.extras != 0 {
            let mut q = p.clone();
            let x = q.jar_mut(j);
            x.layout = 0;
            x.deflate = false;
            x.extras = 0;
            c.push(q);
        }
    }
    if p.order_cal != 0 || p.order_map != 0 {
        let mut q = p.clone();
        q.order_cal = 0;
        q.order_map = 0;
        c.push(q);
    }
    c
}
