//! All differences between two `Sem`s, one path per independent component.
//!
//! `Sem::diff` stops at the first difference. A known defect at `method[0].code.local_var` would then hide a
//! different one at `method[0].code.frame` or in `method[1]`. Here every component that can differ on its own
//! (header items, each field and each of its attributes, each method and each of its attributes, each part
//! of each `Code`) is compared separately with refclass' own `Diff` implementation, so the paths are exactly
//! the ones of the README's grammar. Inside one list-valued component (instructions, frames, annotations ...)
//! only the first difference is reported: after it, positions no longer correspond.

use refclass::sem::{Diff, Sem};

macro_rules! part {
    ($out:expr, $a:expr, $b:expr, $path:expr) => {
        if $a != $b {
            $out.push($a.diff_at(&$b, $path).unwrap_or_else(|| format!("{}.<unlocated>", $path)));
        }
    };
}

pub fn diff_all(a: &Sem, b: &Sem) -> Vec<String> {
    let mut out: Vec<String> = vec![];
    if a == b {
        return out;
    }
    part!(out, a.minor, b.minor, "minor");
    part!(out, a.major, b.major, "major");
    part!(out, a.access, b.access, "access");
    part!(out, a.this_class, b.this_class, "this_class");
    part!(out, a.super_class, b.super_class, "super_class");
    part!(out, a.interfaces, b.interfaces, "interface");
    if a.fields.len() != b.fields.len() {
        out.push("field.len".into());
    } else {
        for (i, (x, y)) in a.fields.iter().zip(&b.fields).enumerate() {
            if x == y {
                continue;
            }
            let p = |n: &str| format!("field[{i}].{n}");
            part!(out, x.access, y.access, &p("access"));
            part!(out, x.name, y.name, &p("name"));
            part!(out, x.desc, y.desc, &p("desc"));
            part!(out, x.constant_value, y.constant_value, &p("constant_value"));
            part!(out, x.signature, y.signature, &p("signature"));
            part!(out, x.synthetic, y.synthetic, &p("synthetic"));
            part!(out, x.deprecated, y.deprecated, &p("deprecated"));
            part!(out, x.annotations, y.annotations, &p("annotations"));
            part!(out, x.type_annotations, y.type_annotations, &p("type_annotations"));
            part!(out, x.unknown, y.unknown, &p("unknown"));
        }
    }
    if a.methods.len() != b.methods.len() {
        out.push("method.len".into());
    } else {
        for (i, (x, y)) in a.methods.iter().zip(&b.methods).enumerate() {
            if x == y {
                continue;
            }
            let p = |n: &str| format!("method[{i}].{n}");
            part!(out, x.access, y.access, &p("access"));
            part!(out, x.name, y.name, &p("name"));
            part!(out, x.desc, y.desc, &p("desc"));
            match (&x.code, &y.code) {
                (Some(c), Some(d)) => {
                    let p = |n: &str| format!("method[{i}].code.{n}");
                    part!(out, c.max_stack, d.max_stack, &p("max_stack"));
                    part!(out, c.max_locals, d.max_locals, &p("max_locals"));
                    part!(out, c.insns, d.insns, &p("insn"));
                    part!(out, c.exceptions, d.exceptions, &p("exception"));
                    part!(out, c.line_numbers, d.line_numbers, &p("line_number"));
                    part!(out, c.local_vars, d.local_vars, &p("local_var"));
                    part!(out, c.local_var_types, d.local_var_types, &p("local_var_type"));
                    part!(out, c.frames, d.frames, &p("frame"));
                    part!(out, c.type_annotations, d.type_annotations, &p("type_annotations"));
                    part!(out, c.unknown, d.unknown, &p("unknown"));
                }
                (None, None) => {}
                _ => out.push(p("code.present")),
            }
            part!(out, x.exceptions, y.exceptions, &p("exception"));
            part!(out, x.method_parameters, y.method_parameters, &p("method_parameter"));
            part!(out, x.annotation_default, y.annotation_default, &p("annotation_default"));
            part!(out, x.parameter_annotations.visible, y.parameter_annotations.visible, &p("parameter_annotations.visible"));
            part!(out, x.parameter_annotations.invisible, y.parameter_annotations.invisible, &p("parameter_annotations.invisible"));
            part!(out, x.annotations, y.annotations, &p("annotations"));
            part!(out, x.type_annotations, y.type_annotations, &p("type_annotations"));
            part!(out, x.signature, y.signature, &p("signature"));
            part!(out, x.synthetic, y.synthetic, &p("synthetic"));
            part!(out, x.deprecated, y.deprecated, &p("deprecated"));
            part!(out, x.unknown, y.unknown, &p("unknown"));
        }
    }
    part!(out, a.source_file, b.source_file, "source_file");
    part!(out, a.source_debug_extension, b.source_debug_extension, "source_debug_extension");
    part!(out, a.inner_classes, b.inner_classes, "inner_class");
    part!(out, a.enclosing_method, b.enclosing_method, "enclosing_method");
    part!(out, a.signature, b.signature, "signature");
    part!(out, a.synthetic, b.synthetic, "synthetic");
    part!(out, a.deprecated, b.deprecated, "deprecated");
    part!(out, a.annotations, b.annotations, "annotations");
    part!(out, a.type_annotations, b.type_annotations, "type_annotations");
    part!(out, a.nest_host, b.nest_host, "nest_host");
    part!(out, a.nest_members, b.nest_members, "nest_member");
    part!(out, a.permitted_subclasses, b.permitted_subclasses, "permitted_subclass");
    part!(out, a.record, b.record, "record_component");
    part!(out, a.module, b.module, "module");
    part!(out, a.module_packages, b.module_packages, "module_package");
    part!(out, a.module_main_class, b.module_main_class, "module_main_class");
    part!(out, a.unknown, b.unknown, "unknown");
    if out.is_empty() {
        // cannot happen (a != b and every field of Sem is listed above); keep the verdict if it does
        out.push(a.diff(b).unwrap_or_else(|| "<unlocated>".into()));
    }
    out
}

#[cfg(test)]
mod tests {
    use super::*;
    use refclass::{gen_class, GenCfg, SplitMix};

    /// the first path of `diff_all` is the path of `Sem::diff` whenever the difference sits in one component,
    /// and two independent damages give two paths
    #[test]
    fn agrees_with_sem_diff() {
        let mut n = 0;
        for seed in 0..400u64 {
            let a = gen_class(&mut SplitMix::new(seed), &GenCfg::default());
            let mut b = a.clone();
            assert!(diff_all(&a, &b).is_empty());
            b.minor ^= 1;
            assert_eq!(diff_all(&a, &b), vec!["minor".to_string()]);
            if let Some(m) = b.methods.iter_mut().find(|m| m.code.is_some()) {
                m.code.as_mut().unwrap().max_locals ^= 1;
                m.deprecated = !m.deprecated;
                let d = diff_all(&a, &b);
                assert_eq!(d.len(), 3, "{d:?}");
                assert_eq!(d[0], a.diff(&b).unwrap());
                assert!(d[1].ends_with(".code.max_locals") && d[2].ends_with(".deprecated"), "{d:?}");
                n += 1;
            }
        }
        assert!(n > 100);
    }
}
