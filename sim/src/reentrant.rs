//! A caller-written visitor chain (MultiClassVisitor -> SimpleClassVisitor -> MethodVisitor -> CodeVisitor) that READS
//! ANOTHER CLASS from inside its callbacks (the way a visitor looks up a class an instruction refers to). Callbacks may
//! call back into the library: the class reader has to cope with a nested read on the same thread like with any other
//! use (missed seeded change C16-13: the bytecode kept in a thread-local `RefCell` that stays borrowed while the
//! `CodeVisitor` callbacks run). The trait plumbing follows the demonstration the sub-agent wrote for that change.

use anyhow::{bail, Result};
use duke::tree::class::{ClassAccess, ClassFile, ClassName, ObjClassName};
use duke::tree::field::{FieldAccess, FieldDescriptor, FieldName};
use duke::tree::method::code::{Exception, Instruction, Label, Lv};
use duke::tree::method::{MethodAccess, MethodDescriptor, MethodName, MethodParameter, MethodSignature};
use duke::tree::version::Version;
use duke::visitor::method::code::{CodeInterests, CodeVisitor, StackMapData};
use duke::visitor::method::{MethodInterests, MethodVisitor};
use duke::visitor::simple::class::SimpleClassVisitor;
use duke::visitor::MultiClassVisitor;
use std::convert::Infallible;
use std::io::Cursor;
use std::ops::ControlFlow;
use std::rc::Rc;

#[derive(Default)]
pub struct Seen {
    pub instructions: usize,
    pub nested: Vec<Result<ClassFile, String>>,
}

pub struct Loader {
    pub library: Rc<Vec<u8>>,
    /// a nested read is made at every `every`-th callback (instructions, tables, method and code starts), at most `max`
    pub every: usize,
    pub max: usize,
    pub calls: usize,
    pub seen: Seen,
}

impl Loader {
    pub fn new(library: Vec<u8>, every: usize, max: usize) -> Loader {
        Loader { library: Rc::new(library), every: every.max(1), max, calls: 0, seen: Seen::default() }
    }
    fn tick(&mut self) {
        self.calls += 1;
        if self.calls % self.every == 0 && self.seen.nested.len() < self.max {
            let r = duke::read_class(&mut Cursor::new(&self.library[..])).map_err(|e| format!("{e:#}"));
            self.seen.nested.push(r);
        }
    }
}

impl MultiClassVisitor for Loader {
    type ClassVisitor = ClassPart;
    type ClassResidual = ();
    fn visit_class(mut self, _version: Version, _access: ClassAccess, _name: ObjClassName, _super_class: Option<ObjClassName>, _interfaces: Vec<ObjClassName>) -> Result<ControlFlow<Self, (Self::ClassResidual, Self::ClassVisitor)>> {
        self.tick();
        Ok(ControlFlow::Continue(((), ClassPart { loader: self })))
    }
    fn finish_class(_this: Self::ClassResidual, class_visitor: Self::ClassVisitor) -> Result<Self> {
        Ok(class_visitor.loader)
    }
}

pub struct ClassPart {
    loader: Loader,
}

impl SimpleClassVisitor for ClassPart {
    type FieldVisitor = Infallible;
    type MethodVisitor = MethodPart;
    fn visit_field(&mut self, _access: FieldAccess, _name: FieldName, _descriptor: FieldDescriptor) -> Result<Option<Self::FieldVisitor>> {
        self.loader.tick();
        Ok(None)
    }
    fn finish_field(&mut self, _field_visitor: Self::FieldVisitor) -> Result<()> {
        Ok(())
    }
    fn visit_method(&mut self, _access: MethodAccess, _name: MethodName, _descriptor: MethodDescriptor) -> Result<Option<Self::MethodVisitor>> {
        self.loader.tick();
        // the loader travels down with the method and comes back in finish_method
        let l = std::mem::replace(&mut self.loader, Loader::new(vec![], 1, 0));
        Ok(Some(MethodPart { loader: Some(l) }))
    }
    fn finish_method(&mut self, method_visitor: Self::MethodVisitor) -> Result<()> {
        if let Some(l) = method_visitor.loader {
            self.loader = l;
        }
        Ok(())
    }
}

pub struct MethodPart {
    loader: Option<Loader>,
}

impl MethodVisitor for MethodPart {
    type AnnotationsVisitor = Infallible;
    type AnnotationsResidual = Self;
    type TypeAnnotationsVisitor = Infallible;
    type TypeAnnotationsResidual = Self;
    type AnnotationDefaultVisitor = Infallible;
    type AnnotationDefaultResidual = Self;
    type CodeVisitor = CodePart;
    type UnknownAttribute = ();
    fn interests(&self) -> MethodInterests {
        MethodInterests { code: true, ..MethodInterests::none() }
    }
    fn visit_deprecated_and_synthetic_attribute(&mut self, _deprecated: bool, _synthetic: bool) -> Result<()> {
        Ok(())
    }
    fn visit_exceptions(&mut self, _exceptions: Vec<ClassName>) -> Result<()> {
        Ok(())
    }
    fn visit_signature(&mut self, _signature: MethodSignature) -> Result<()> {
        Ok(())
    }
    fn visit_annotations(self, _visible: bool) -> Result<(Self::AnnotationsResidual, Self::AnnotationsVisitor)> {
        bail!("not interested in annotations")
    }
    fn finish_annotations(this: Self::AnnotationsResidual, _annotations_visitor: Self::AnnotationsVisitor) -> Result<Self> {
        Ok(this)
    }
    fn visit_type_annotations(self, _visible: bool) -> Result<(Self::TypeAnnotationsResidual, Self::TypeAnnotationsVisitor)> {
        bail!("not interested in type annotations")
    }
    fn finish_type_annotations(this: Self::TypeAnnotationsResidual, _type_annotations_visitor: Self::TypeAnnotationsVisitor) -> Result<Self> {
        Ok(this)
    }
    fn visit_annotation_default(self) -> Result<(Self::AnnotationDefaultResidual, Self::AnnotationDefaultVisitor)> {
        bail!("not interested in the annotation default")
    }
    fn finish_annotation_default(this: Self::AnnotationDefaultResidual, _element_value_visitor: Self::AnnotationDefaultVisitor) -> Result<Self> {
        Ok(this)
    }
    fn visit_parameters(&mut self, _method_parameters: Vec<MethodParameter>) -> Result<()> {
        Ok(())
    }
    fn visit_annotable_parameter_count(&mut self) {}
    fn visit_parameter_annotation(&mut self) {}
    fn visit_unknown_attribute(&mut self, _unknown_attribute: Self::UnknownAttribute) -> Result<()> {
        Ok(())
    }
    fn visit_code(&mut self) -> Result<Option<Self::CodeVisitor>> {
        let mut l = self.loader.take();
        if let Some(l) = l.as_mut() {
            l.tick();
        }
        Ok(Some(CodePart { loader: l }))
    }
    fn finish_code(&mut self, code_visitor: Self::CodeVisitor) -> Result<()> {
        self.loader = code_visitor.loader;
        Ok(())
    }
}

pub struct CodePart {
    loader: Option<Loader>,
}

impl CodePart {
    fn tick(&mut self) {
        if let Some(l) = self.loader.as_mut() {
            l.tick();
        }
    }
}

impl CodeVisitor for CodePart {
    type TypeAnnotationsVisitor = Infallible;
    type TypeAnnotationsResidual = Self;
    type UnknownAttribute = ();
    fn interests(&self) -> CodeInterests {
        CodeInterests { line_number_table: true, local_variable_table: true, ..CodeInterests::none() }
    }
    fn visit_max_stack_and_max_locals(&mut self, _max_stack: u16, _max_locals: u16) -> Result<()> {
        self.tick();
        Ok(())
    }
    fn visit_exception_table(&mut self, _exception_table: Vec<Exception>) -> Result<()> {
        self.tick();
        Ok(())
    }
    fn visit_instruction(&mut self, _label: Option<Label>, _frame: Option<StackMapData>, _instruction: Instruction) -> Result<()> {
        if let Some(l) = self.loader.as_mut() {
            l.seen.instructions += 1;
        }
        self.tick();
        Ok(())
    }
    fn visit_last_label(&mut self, _last_label: Label) -> Result<()> {
        Ok(())
    }
    fn visit_line_numbers(&mut self, _line_number_table: Vec<(Label, u16)>) -> Result<()> {
        self.tick();
        Ok(())
    }
    fn visit_local_variables(&mut self, _local_variables: Vec<Lv>) -> Result<()> {
        self.tick();
        Ok(())
    }
    fn visit_type_annotations(self, _visible: bool) -> Result<(Self::TypeAnnotationsResidual, Self::TypeAnnotationsVisitor)> {
        bail!("not interested in type annotations")
    }
    fn finish_type_annotations(this: Self::TypeAnnotationsResidual, _type_annotations_visitor: Self::TypeAnnotationsVisitor) -> Result<Self> {
        Ok(this)
    }
    fn visit_unknown_attribute(&mut self, _unknown_attribute: Self::UnknownAttribute) -> Result<()> {
        Ok(())
    }
}
