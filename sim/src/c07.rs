//! C07 - `dukebox::remap::remap(jar, remapper)` renames every reference consistently and nothing else.
//!
//! Seam: the input jar is a `SimJar` (zip bytes served through `SimReader`s under an `IoPlan`). The output
//! `ParsedJar` goes through the public route `to_mem()`, is re-opened with the zip crate over a plain cursor and
//! its classes are observed ONLY through `refclass::parse` / `refclass::validate`.
//! Oracle: `refremap::rename(M, rho)` with the independent reference remapper `refremap::Rho`.

#[path = "c07_corpus.rs"]
pub mod c07_corpus;
#[path = "c07_gen.rs"]
pub mod c07_gen;

use self::c07_gen::{build, WCfg};
use crate::bridge::{to_quill, Ns};
use crate::engine::*;
use crate::refmap::MapSet;
use crate::refremap::{all_diffs, direct_supers, normalise_path, rename, tolerate, Pos, Rho};
use crate::rng::{Digest, Rng};
use crate::simio::*;
use crate::simjar::{build_jar, open_entries, EntryData, LazyJar, LazyPlan, SimJar};
use dukebox::storage::Jar;
use refclass::gen::feat;
use refclass::{JStr, Sem};
use serde::{Deserialize, Serialize};
use serde_json::json;
use std::collections::{BTreeMap, BTreeSet};

pub struct C07;

/// sensitivity self-test knob: the reference leaves one position kind unrenamed; the engine must then report it
static DUMP_RUN: std::sync::OnceLock<Option<u64>> = std::sync::OnceLock::new();
static PERTURB: std::sync::OnceLock<Option<Pos>> = std::sync::OnceLock::new();

mod hexbytes {
    use serde::{Deserialize, Deserializer, Serializer};
    pub fn serialize<S: Serializer>(b: &[u8], s: S) -> Result<S::Ok, S::Error> {
        const H: &[u8; 16] = b"0123456789abcdef";
        let mut out = String::with_capacity(b.len() * 2);
        for x in b {
            out.push(H[(x >> 4) as usize] as char);
            out.push(H[(x & 15) as usize] as char);
        }
        s.serialize_str(&out)
    }
    pub fn deserialize<'de, D: Deserializer<'de>>(d: D) -> Result<Vec<u8>, D::Error> {
        let s = String::deserialize(d)?;
        let b = s.as_bytes();
        if b.len() % 2 != 0 {
            return Err(serde::de::Error::custom("odd hex length"));
        }
        let v = |c: u8| -> Result<u8, D::Error> {
            match c {
                b'0'..=b'9' => Ok(c - b'0'),
                b'a'..=b'f' => Ok(c - b'a' + 10),
                b'A'..=b'F' => Ok(c - b'A' + 10),
                _ => Err(serde::de::Error::custom("bad hex digit")),
            }
        };
        let mut out = Vec::with_capacity(b.len() / 2);
        for p in b.chunks(2) {
            out.push(v(p[0])? << 4 | v(p[1])?);
        }
        Ok(out)
    }
}

/// /repo's remap prints a line to stderr for every non-class entry and every signature. That output is not an
/// observation of any property; it is sent to /dev/null while the real code runs (process-wide, reference
/// counted). `VERIF_C07_STDERR=1` keeps it.
pub(crate) mod quiet {
    use std::sync::{Mutex, OnceLock};
    extern "C" {
        fn dup(fd: i32) -> i32;
        fn dup2(a: i32, b: i32) -> i32;
        fn close(fd: i32) -> i32;
    }
    static STATE: Mutex<(u32, i32)> = Mutex::new((0, -1));
    static KEEP: OnceLock<bool> = OnceLock::new();
    pub struct Guard(bool);
    pub fn on() -> Guard {
        if *KEEP.get_or_init(|| std::env::var_os("VERIF_C07_STDERR").is_some()) {
            return Guard(false);
        }
        let mut s = STATE.lock().unwrap_or_else(|e| e.into_inner());
        if s.0 == 0 {
            if let Ok(null) = std::fs::OpenOptions::new().write(true).open("/dev/null") {
                use std::os::fd::AsRawFd;
                // SAFETY: plain POSIX descriptor duplication; both descriptors are valid here
                unsafe {
                    let saved = dup(2);
                    if saved >= 0 {
                        dup2(null.as_raw_fd(), 2);
                        s.1 = saved;
                    }
                }
            }
        }
        s.0 += 1;
        Guard(true)
    }
    impl Drop for Guard {
        fn drop(&mut self) {
            if !self.0 {
                return;
            }
            let mut s = STATE.lock().unwrap_or_else(|e| e.into_inner());
            s.0 -= 1;
            if s.0 == 0 && s.1 >= 0 {
                // SAFETY: restores the descriptor saved in `on`
                unsafe {
                    dup2(s.1, 2);
                    close(s.1);
                }
                s.1 = -1;
            }
        }
    }
}

#[derive(Clone, Serialize, Deserialize, PartialEq, Debug)]
pub struct PEntry {
    pub name: String,
    #[serde(default)]
    pub dir: bool,
    /// file content, hex (class files are explicit bytes: `refclass-dump` reads them)
    #[serde(with = "hexbytes", default)]
    pub data: Vec<u8>,
}

#[derive(Clone, Serialize, Deserialize)]
pub struct Plan {
    /// jar entries in archive order; a name ending in `.class` is a class
    pub entries: Vec<PEntry>,
    pub deflate: bool,
    /// two namespaces; renaming goes from the first to the second
    pub map: MapSet,
    /// insertion order of the mapping set handed to quill (0 = model order)
    pub map_order: u64,
    /// schedule and faults of the jar medium
    pub io: IoPlan,
    /// true: the super-class provider (remapper construction) reads a healthy copy of the jar and only
    /// `remap` itself meets the faults; false: both read the faulty medium
    pub provider_healthy: bool,
    /// sink phase (only when the jar medium carries no fault): the remapped jar is written out again.
    /// route 0: `ParsedJar::write` (hook H3) into a simulated Write + Seek sink under `sink`;
    /// route 1: `put_to_file` into a fresh file of the simulated directory, re-opened with `FileJar`;
    /// route 2: `put_to_file` onto a full device (/dev/full); route 3: `put_to_file` below a directory that is
    /// not there; route 4: `put_to_file` over an existing, longer file
    #[serde(default)]
    pub sink: Option<IoPlan>,
    #[serde(default)]
    pub sink_route: u8,
    /// Some: the same entries are also offered as a `LazyJar` (entry-level seam: an entry operation fails once, or
    /// from some point on)
    #[serde(default)]
    pub lazy: Option<LazyPlan>,
    /// answers of a caller-written remapper laid over the mapping-based one (the `BRemapper` handed to `remap` is a
    /// trait the caller may implement): members of classes the mappings do not mention get new names
    #[serde(default)]
    pub overlay: Vec<Ov>,
    /// a class write that fails inside an attribute body is made on this thread before anything else (missed seeded
    /// change C07-13: a pooled attribute buffer of the class writer that is only cleared on success)
    #[serde(default)]
    pub poison_first: bool,
    /// entries of a LIBRARY jar whose super-class provider is consulted AFTER the main jar's (`vec![main, library]`, the
    /// first provider that knows a class answers): it bundles another copy of a main-jar class, with a super type that
    /// has a mapped member of the same name (missed seeded change C07-16: a provider that keeps no entry for classes
    /// directly below java/lang/Object lets the library's copy answer)
    #[serde(default)]
    pub lib: Vec<PEntry>,
}

#[derive(Clone, Serialize, Deserialize, Debug)]
pub struct Ov {
    pub field: bool,
    pub owner: String,
    pub name: String,
    pub desc: String,
    pub to: String,
}

/// The caller-written remapper: exact (owner, name, descriptor) answers first, everything else from `inner`.
pub struct Overlay<'a, R> {
    pub inner: R,
    pub ov: &'a [Ov],
}
impl<R: quill::remapper::ARemapper> quill::remapper::ARemapper for Overlay<'_, R> {
    fn map_class_fail(&self, class: &duke::tree::class::ObjClassNameSlice) -> anyhow::Result<Option<duke::tree::class::ObjClassName>> {
        self.inner.map_class_fail(class)
    }
}
impl<R: quill::remapper::BRemapper> quill::remapper::BRemapper for Overlay<'_, R> {
    fn map_field_fail(&self, owner: &duke::tree::class::ObjClassNameSlice, name: &duke::tree::field::FieldNameSlice, desc: &duke::tree::field::FieldDescriptorSlice) -> anyhow::Result<Option<duke::tree::field::FieldNameAndDesc>> {
        use quill::remapper::ARemapper;
        for o in self.ov {
            if o.field && owner.as_inner().as_bytes() == o.owner.as_bytes() && name.as_inner().as_bytes() == o.name.as_bytes() && desc.as_inner().as_bytes() == o.desc.as_bytes() {
                return Ok(Some(duke::tree::field::FieldNameAndDesc { name: java_string::JavaString::from(o.to.clone()).try_into()?, desc: self.inner.map_field_desc(desc)? }));
            }
        }
        self.inner.map_field_fail(owner, name, desc)
    }
    fn map_method_fail(&self, owner: &duke::tree::class::ObjClassNameSlice, name: &duke::tree::method::MethodNameSlice, desc: &duke::tree::method::MethodDescriptorSlice) -> anyhow::Result<Option<duke::tree::method::MethodNameAndDesc>> {
        use quill::remapper::ARemapper;
        for o in self.ov {
            if !o.field && owner.as_inner().as_bytes() == o.owner.as_bytes() && name.as_inner().as_bytes() == o.name.as_bytes() && desc.as_inner().as_bytes() == o.desc.as_bytes() {
                return Ok(Some(duke::tree::method::MethodNameAndDesc { name: java_string::JavaString::from(o.to.clone()).try_into()?, desc: self.inner.map_method_desc(desc)? }));
            }
        }
        self.inner.map_method_fail(owner, name, desc)
    }
}

fn to_entries(p: &Plan) -> Vec<(String, EntryData)> {
    p.entries.iter().map(|e| (e.name.clone(), if e.dir { EntryData::Dir } else { EntryData::File(e.data.clone()) })).collect()
}

fn jname(j: &JStr) -> String {
    j.to_str().unwrap_or_else(|| j.to_string_lossy())
}

// ------------------------------------------------------------------------------------------------
// reference side

enum Expected {
    Dir { name: String },
    Other { name: String, data: Vec<u8> },
    Class { in_name: String, out_name: String, orig: Box<Sem>, exp: Box<Sem>, in_bytes: Vec<u8> },
    /// a class entry whose bytes the reference parser refuses (only under damage)
    Unparseable { out_name: String },
}

struct Reference {
    rho: Rho,
    expected: Vec<Expected>,
    unparseable: usize,
    changed: BTreeMap<&'static str, u64>,
}

fn is_class(name: &str) -> bool {
    name.ends_with(".class")
}

/// `hier`: the entries the super-class provider saw; `entries`: the entries `remap` saw.
/// `by_entry_name`: the output name of a class entry is derived from its ENTRY name (used only when the medium
/// was damaged and entry name and class name may disagree); otherwise from the class's own name, as the
/// property states.
fn reference(hier: &[(String, EntryData)], entries: &[(String, EntryData)], map: &MapSet, overlay: &[Ov], by_entry_name: bool) -> Reference {
    reference_with_lib(hier, &[], entries, map, overlay, by_entry_name)
}

/// `lib`: classes of a library whose provider is asked after the main jar's: they only fill in classes the main jar
/// does not have
fn reference_with_lib(hier: &[(String, EntryData)], lib: &[PEntry], entries: &[(String, EntryData)], map: &MapSet, overlay: &[Ov], by_entry_name: bool) -> Reference {
    let mut supers: BTreeMap<JStr, Vec<JStr>> = BTreeMap::new();
    for (n, d) in hier {
        if let (true, EntryData::File(b)) = (is_class(n), d) {
            if let Ok(s) = refclass::parse(b) {
                supers.insert(s.this_class.clone(), direct_supers(&s));
            }
        }
    }
    for e in lib {
        if let Ok(s) = refclass::parse(&e.data) {
            supers.entry(s.this_class.clone()).or_insert_with(|| direct_supers(&s));
        }
    }
    let mut rho = Rho::new(map, supers);
    for o in overlay {
        rho.overlay.insert((o.field, JStr::from_str(&o.owner), JStr::from_str(&o.name), JStr::from_str(&o.desc)), JStr::from_str(&o.to));
    }
    rho.skip = *PERTURB.get_or_init(|| std::env::var("VERIF_C07_PERTURB").ok().and_then(|v| Pos::ALL.iter().copied().find(|p| p.probe() == v)));
    let mut expected = vec![];
    let mut unparseable = 0;
    let mut changed: BTreeMap<&'static str, u64> = BTreeMap::new();
    for (n, d) in entries {
        match d {
            EntryData::Dir => expected.push(Expected::Dir { name: n.clone() }),
            EntryData::File(b) if !is_class(n) => expected.push(Expected::Other { name: n.clone(), data: b.clone() }),
            EntryData::File(b) => {
                let stem = &n[..n.len() - ".class".len()];
                let by_entry = format!("{}.class", jname(&rho.map_class(&JStr::from_str(stem))));
                match refclass::parse(b) {
                    Ok(orig) => {
                        let (exp, ch) = rename(&orig, &rho);
                        for (k, v) in ch {
                            *changed.entry(k).or_insert(0) += v;
                        }
                        let out_name = if by_entry_name { by_entry } else { format!("{}.class", jname(&exp.this_class)) };
                        expected.push(Expected::Class { in_name: n.clone(), out_name, orig: Box::new(orig), exp: Box::new(exp), in_bytes: b.clone() });
                    }
                    Err(_) => {
                        unparseable += 1;
                        expected.push(Expected::Unparseable { out_name: by_entry });
                    }
                }
            }
        }
    }
    Reference { rho, expected, unparseable, changed }
}

fn duke_roundtrip(bytes: &[u8]) -> Option<Vec<u8>> {
    let r = no_panic(|| -> anyhow::Result<Vec<u8>> {
        let c = duke::read_class(&mut std::io::Cursor::new(bytes))?;
        let mut out = vec![];
        duke::write_class(&mut out, &c)?;
        Ok(out)
    });
    match r {
        Ok(Ok(b)) => Some(b),
        _ => None,
    }
}

fn prefixes(bytes: &[u8]) -> BTreeSet<String> {
    match refclass::validate(bytes) {
        Ok(()) => BTreeSet::new(),
        Err(v) => v.iter().map(|m| refclass::validate::prefix(m).to_string()).collect(),
    }
}

/// Compares what the output jar holds with the reference. Returns (path, detail) pairs.
/// `skip_class_content`: only names / kinds / non-class content are judged (a class of the damaged input did
/// not parse under the reference parser, so the hierarchy the real code saw is not known to the reference).
fn judge(r: &Reference, act: &[(String, EntryData)], skip_class_content: bool, st: &mut RunStats) -> Vec<(String, String)> {
    let mut out: Vec<(String, String)> = vec![];
    let mut by_name: BTreeMap<&str, &EntryData> = BTreeMap::new();
    for (n, d) in act {
        if by_name.insert(n.as_str(), d).is_some() {
            out.push(("entries.duplicate-name".into(), format!("output has two entries named {n:?}")));
        }
    }
    let exp_names: BTreeSet<&str> = r
        .expected
        .iter()
        .map(|e| match e {
            Expected::Dir { name } | Expected::Other { name, .. } => name.as_str(),
            Expected::Class { out_name, .. } | Expected::Unparseable { out_name } => out_name.as_str(),
        })
        .collect();
    if act.len() != r.expected.len() || exp_names.len() != r.expected.len() {
        if exp_names.len() != r.expected.len() {
            // two input entries want the same output name: outside the workload (the generator keeps mappings injective)
            st.probe("reference_name_collision");
        } else {
            out.push(("entries.count".into(), format!("input has {} entries, output has {}", r.expected.len(), act.len())));
        }
    }
    let listing = || -> String {
        let v: Vec<&str> = act.iter().map(|a| a.0.as_str()).take(12).collect();
        format!("{v:?}")
    };
    for e in &r.expected {
        match e {
            Expected::Dir { name } => match by_name.get(name.as_str()) {
                Some(EntryData::Dir) => {}
                Some(_) => out.push(("entry.dir.kind".into(), format!("{name:?} is no longer a directory"))),
                None => out.push(("entry.dir.missing".into(), format!("directory {name:?} missing; output has {}", listing()))),
            },
            Expected::Other { name, data } => match by_name.get(name.as_str()) {
                Some(EntryData::File(b)) if b == data => {}
                Some(EntryData::File(b)) => out.push(("entry.other.content".into(), format!("{name:?}: {} bytes in, {} bytes out, content differs", data.len(), b.len()))),
                Some(EntryData::Dir) => out.push(("entry.other.kind".into(), format!("{name:?} became a directory"))),
                None => out.push(("entry.other.missing".into(), format!("non-class entry {name:?} missing; output has {}", listing()))),
            },
            Expected::Unparseable { out_name } => {
                if !by_name.contains_key(out_name.as_str()) {
                    out.push(("entry.class.name".into(), format!("no entry {out_name:?}; output has {}", listing())));
                }
            }
            Expected::Class { in_name, out_name, orig, exp, in_bytes } => match by_name.get(out_name.as_str()) {
                None => out.push(("entry.class.name".into(), format!("class {:?} (entry {in_name:?}) must be stored as {out_name:?}; output has {}", jname(&orig.this_class), listing()))),
                Some(EntryData::Dir) => out.push(("entry.class.kind".into(), format!("{out_name:?} is a directory"))),
                Some(EntryData::File(b)) => {
                    if skip_class_content {
                        continue;
                    }
                    let actual = match refclass::parse(b) {
                        Ok(s) => s,
                        Err(pe) => {
                            let pfx = refclass::validate::prefix(&pe.what).to_string();
                            out.push((format!("class.parse:{pfx}"), format!("{out_name:?}: {} (at byte {})", pe.what, pe.offset)));
                            continue;
                        }
                    };
                    let after = prefixes(b);
                    if !after.is_empty() {
                        let before = prefixes(in_bytes);
                        for p in after.difference(&before) {
                            out.push((format!("class.validate:{p}"), format!("{out_name:?}: structural problem `{p}` that the input class did not have")));
                        }
                    }
                    let mut expd = (**exp).clone();
                    let t = tolerate(orig, &mut expd, &actual, &r.rho);
                    st.probe_n("tolerated_alternative", t);
                    // a far conditional jump is legitimately re-written through an inverted-condition trampoline
                    // (C02): both sides are compared with trampolines folded
                    let mut actual = actual;
                    let folds = crate::c02::fold_all(&mut expd) + crate::c02::fold_all(&mut actual);
                    st.probe_n("trampolines_folded", folds);
                    let diffs = all_diffs(&expd, &actual);
                    if diffs.is_empty() {
                        st.probe("class_exact_match");
                        continue;
                    }
                    // what duke's reader + writer lose on this class without any renaming (owned by C01/C02)
                    let base: BTreeSet<String> = match duke_roundtrip(in_bytes).and_then(|rt| refclass::parse(&rt).ok()) {
                        Some(mut rt) => {
                            let mut o = (**orig).clone();
                            crate::c02::fold_all(&mut o);
                            crate::c02::fold_all(&mut rt);
                            all_diffs(&o, &rt).into_iter().map(|x| x.0).collect()
                        }
                        None => BTreeSet::new(),
                    };
                    for (p, d) in diffs {
                        let stage = if base.contains(&p) { "rw-loss" } else { "remap" };
                        out.push((format!("{stage}.{}", normalise_path(&p)), format!("class {:?} -> {out_name:?} at {p}: {d}", jname(&orig.this_class))));
                    }
                }
            },
        }
    }
    out
}

// ------------------------------------------------------------------------------------------------
// real side

enum RealOut {
    Ok(Vec<(String, EntryData)>),
    Err { stage: &'static str, msg: String, norm: String },
    Panic(String),
}

fn norm_err(e: &anyhow::Error) -> String {
    let root = e.root_cause().to_string();
    let mut out = String::new();
    let mut in_q = false;
    for c in root.chars() {
        if c == '"' {
            in_q = !in_q;
            out.push('"');
            continue;
        }
        if in_q {
            continue;
        }
        if c.is_ascii_digit() {
            if !out.ends_with('#') {
                out.push('#');
            }
            continue;
        }
        out.push(c);
        if out.len() >= 60 {
            break;
        }
    }
    out
}

struct RealRun {
    out: RealOut,
    fuel_exhausted: bool,
}

fn run_real(jar_bytes: &[u8], hier_bytes: Option<&[u8]>, io: &IoPlan, map: &MapSet, overlay: &[Ov], lib: &[PEntry], order: u64, st: &mut RunStats) -> RealRun {
    let q: quill::tree::mappings::Mappings<2, Ns> = to_quill::<2>(map, if order == 0 { None } else { Some(Rng::new(order)) }.as_mut()).expect("mapping model admissible for quill");
    let jar = SimJar::new(jar_bytes.to_vec(), io);
    // `remap` takes the jar by value: a second handle on the same medium (same bytes, plan and event log)
    let jar2 = SimJar { data: jar.data.clone(), plan: jar.plan.clone(), agg: jar.agg.clone() };
    let healthy = hier_bytes.map(|b| SimJar::new(b.to_vec(), &IoPlan::plain()));
    let _g = quiet::on();
    let res = no_panic(|| -> Result<Vec<(String, EntryData)>, (&'static str, anyhow::Error)> {
        let prov = match &healthy {
            Some(h) => h.get_super_classes_provider(),
            None => jar.get_super_classes_provider(),
        }
        .map_err(|e| ("provider", e))?;
        // the library's provider (if any) is asked after the main jar's
        let mut provs = vec![prov];
        if !lib.is_empty() {
            let lib_entries: Vec<(String, EntryData)> = lib.iter().map(|e| (e.name.clone(), EntryData::File(e.data.clone()))).collect();
            let lj = SimJar::new(build_jar(&lib_entries, false), &IoPlan::plain());
            provs.push(lj.get_super_classes_provider().map_err(|e| ("provider", e))?);
        }
        let prov = provs;
        let remapper = Overlay { inner: q.remapper_b_first_to_second(&prov).map_err(|e| ("remapper", e))?, ov: overlay };
        let parsed = dukebox::remap::remap(jar2, remapper).map_err(|e| ("remap", e))?;
        let mem = parsed.to_mem().map_err(|e| ("to_mem", e))?;
        let entries = open_entries(&mem.data).map_err(|e| ("reopen", e))?;
        Ok(entries)
    });
    drop(_g);
    jar.report(st);
    let fuel = jar.fuel_exhausted();
    let out = match res {
        Ok(Ok(v)) => RealOut::Ok(v),
        Ok(Err((stage, e))) => RealOut::Err { stage, msg: format!("{e:#}"), norm: norm_err(&e) },
        Err(pm) => RealOut::Panic(pm),
    };
    RealRun { out, fuel_exhausted: fuel }
}

fn digest_entries(d: &mut Digest, v: &[(String, EntryData)]) {
    d.u64(v.len() as u64);
    for (n, e) in v {
        d.str(n);
        match e {
            EntryData::Dir => d.u64(1),
            EntryData::File(b) => d.bytes(b),
        }
    }
}

/// central directory range of a zip without comment: (offset, size)
fn central_dir(jar: &[u8]) -> (u64, u64) {
    if jar.len() >= 22 {
        let e = jar.len() - 22;
        if jar[e..e + 4] == [0x50, 0x4b, 0x05, 0x06] {
            let size = u32::from_le_bytes([jar[e + 12], jar[e + 13], jar[e + 14], jar[e + 15]]) as u64;
            let off = u32::from_le_bytes([jar[e + 16], jar[e + 17], jar[e + 18], jar[e + 19]]) as u64;
            return (off, size);
        }
    }
    (jar.len() as u64, 0)
}

fn push_dedup(out: &mut Vec<Violation>, seen: &mut BTreeSet<String>, v: Violation) {
    if out.len() < 60 && seen.insert(v.identity()) {
        out.push(v);
    }
}

// ------------------------------------------------------------------------------------------------
// sink phase

/// a `Write + Seek` handle on a `SimWriter` the harness keeps: `ParsedJar::write` consumes its sink and drops it on
/// the error path, and what the sink holds must be observable either way
struct SharedSink(std::sync::Arc<std::sync::Mutex<SimWriter>>);
impl std::io::Write for SharedSink {
    fn write(&mut self, buf: &[u8]) -> std::io::Result<usize> {
        self.0.lock().unwrap_or_else(|e| e.into_inner()).write(buf)
    }
    fn flush(&mut self) -> std::io::Result<()> {
        self.0.lock().unwrap_or_else(|e| e.into_inner()).flush()
    }
}
impl std::io::Seek for SharedSink {
    fn seek(&mut self, pos: std::io::SeekFrom) -> std::io::Result<u64> {
        self.0.lock().unwrap_or_else(|e| e.into_inner()).seek(pos)
    }
}

fn entries_via_dukebox(jar: &impl Jar) -> anyhow::Result<Vec<String>> {
    use dukebox::storage::OpenedJar;
    let opened = jar.open()?;
    let names: Vec<String> = opened.names().map(|(_, n)| n.to_string()).collect();
    Ok(names)
}

#[allow(clippy::too_many_arguments)]
fn sink_phase(jar_bytes: &[u8], map: &MapSet, overlay: &[Ov], order: u64, sink: &IoPlan, route: u8, t0_entries: &[(String, EntryData)], obs: &mut Digest, st: &mut RunStats) -> Vec<Violation> {
    let mut out = vec![];
    let q: quill::tree::mappings::Mappings<2, Ns> = to_quill::<2>(map, if order == 0 { None } else { Some(Rng::new(order)) }.as_mut()).expect("mapping model admissible for quill");
    let src = SimJar::new(jar_bytes.to_vec(), &IoPlan::plain());
    let src2 = SimJar { data: src.data.clone(), plan: src.plan.clone(), agg: src.agg.clone() };
    let _g = quiet::on();
    let parsed = no_panic(|| -> anyhow::Result<_> {
        let prov = src.get_super_classes_provider()?;
        let remapper = Overlay { inner: q.remapper_b_first_to_second(&prov)?, ov: overlay };
        dukebox::remap::remap(src2, remapper)
    });
    drop(_g);
    let parsed = match parsed {
        Ok(Ok(p)) => p,
        // T0 already judged this workload; a refusal or panic here was reported there
        _ => return out,
    };
    let legal = sink.legal_only();
    let judge_bytes = |bytes: &[u8], tier: &str, class: &str, what: &str, out: &mut Vec<Violation>| match open_entries(bytes) {
        Ok(v) if v == t0_entries => {}
        Ok(v) => {
            let at = v.iter().zip(t0_entries).position(|(a, b)| a != b).unwrap_or(v.len().min(t0_entries.len()));
            out.push(Violation::new(tier, class, format!("{what}.entries"), format!("the written jar differs from the to_mem jar at entry {at} ({} vs {} entries)", v.len(), t0_entries.len())));
        }
        Err(e) => out.push(Violation::new(tier, class, format!("{what}.reopen"), format!("the bytes the sink holds ({}) do not re-open as a jar: {e:#}", bytes.len()))),
    };
    match route {
        0 => {
            st.tier(if legal { "T1" } else { "T2" });
            st.probe("sink.write");
            let shared = std::sync::Arc::new(std::sync::Mutex::new(SimWriter::new(sink)));
            let res = no_panic(|| parsed.verif_write(SharedSink(shared.clone())).map(|_| ()));
            let w = shared.lock().unwrap_or_else(|e| e.into_inner());
            st.io(&w.stats, Digest(w.log.0));
            let fired = !w.stats.fired.is_empty() || w.any_error_returned;
            let tier = if fired { "T2" } else { "T1" };
            obs.u64(0x51);
            let eintr = w.stats.eintrs > 0;
            match res {
                // a panic raised inside a dependency (zip's debug assertions, flate2) once the sink has failed or
                // answered Interrupted is that crate's behaviour on a broken sink, which C07 does not speak about
                Err(pm) if (fired || eintr) && pm.contains("/.cargo/registry/") => st.probe("sink.dependency_panic_on_broken_sink"),
                Err(pm) => out.push(Violation::new(tier, "panic", format!("jar-write:{}", panic_path(&pm)), pm)),
                Ok(Err(e)) => {
                    obs.u64(2);
                    if fired {
                        st.probe("sink.err_after_fault");
                        // the zip crate's error text is not an observation
                    } else if eintr {
                        // flate2's buffer dump does not retry Interrupted: a clean Err, outside /repo
                        st.probe("sink.err_after_eintr");
                    } else {
                        out.push(Violation::new("T1", "schedule-dependence", "sink.result", format!("short writes alone made the jar writer fail: {e:#}")));
                    }
                }
                Ok(Ok(())) => {
                    obs.u64(1);
                    obs.bytes(&crate::rng::fnv(w.accepted()).to_le_bytes());
                    if fired {
                        st.probe("sink.ok_after_fault");
                        judge_bytes(w.accepted(), "T2", "writer-ok-with-incomplete-sink", "sink", &mut out);
                    } else {
                        judge_bytes(w.accepted(), "T1", "schedule-dependence", "sink", &mut out);
                    }
                }
            }
        }
        1 | 3 | 4 => {
            st.tier("T0");
            let mut dir = crate::simdir::SimDir::new("c07");
            let rel = if route == 3 { "missing/out.jar" } else { "out/out.jar" };
            if route != 3 {
                std::fs::create_dir_all(dir.join("out")).expect("simdir: mkdir");
            }
            if route == 4 {
                // an older, longer file is already there
                let approx: usize = t0_entries.iter().map(|(n, d)| 200 + 2 * n.len() + if let EntryData::File(b) = d { b.len() } else { 0 }).sum();
                dir.create(rel, &vec![0x5a; 2 * approx + 4096]);
                st.probe("sink.put_to_file.over_longer_file");
            }
            let path = dir.join(rel);
            let res = no_panic(|| parsed.put_to_file(&path).map(|p| p.to_path_buf()));
            dir.syscalls += 4;
            obs.u64(0x52 + route as u64);
            match (route, res) {
                (_, Err(pm)) => out.push(Violation::new("T0", "panic", format!("put_to_file:{}", panic_path(&pm)), pm)),
                (3, Ok(Err(_))) => {
                    st.probe("sink.put_to_file.missing_parent_refused");
                    if !dir.tree().is_empty() {
                        out.push(Violation::new("T0", "residue-after-heal", "put_to_file.missing-parent", "a refused put_to_file left files behind"));
                    }
                }
                (3, Ok(Ok(_))) => out.push(Violation::new("T0", "writer-ok-with-incomplete-sink", "put_to_file.missing-parent", "Ok although the target directory does not exist")),
                (_, Ok(Err(e))) => out.push(Violation::new("T0", "refused-wellformed", "put_to_file", format!("{e:#}"))),
                (_, Ok(Ok(stored))) => {
                    st.probe("sink.put_to_file.ok");
                    if stored != path {
                        out.push(Violation::new("T0", "semantic-mismatch", "put_to_file.path", format!("stored to {stored:?}, asked for {path:?}")));
                    }
                    match std::fs::read(&stored) {
                        Ok(bytes) => {
                            obs.bytes(&crate::rng::fnv(&bytes).to_le_bytes());
                            judge_bytes(&bytes, "T0", "invalid-output", "put_to_file", &mut out);
                        }
                        Err(e) => out.push(Violation::new("T0", "invalid-output", "put_to_file.file", format!("Ok, but the file cannot be read: {e}"))),
                    }
                    // and back in through the file-backed jar of the crate
                    let fj = dukebox::storage::FileJar { path: stored.clone() };
                    match no_panic(|| entries_via_dukebox(&fj)) {
                        Ok(Ok(names)) => {
                            let want: Vec<&String> = t0_entries.iter().map(|(n, _)| n).collect();
                            if names.iter().collect::<Vec<_>>() != want {
                                out.push(Violation::new("T0", "invalid-output", "put_to_file.filejar.names", format!("FileJar lists {names:?}, the to_mem jar {want:?}")));
                            }
                        }
                        Ok(Err(e)) => out.push(Violation::new("T0", "invalid-output", "put_to_file.filejar.open", format!("{e:#}"))),
                        Err(pm) => out.push(Violation::new("T0", "panic", format!("filejar:{}", panic_path(&pm)), pm)),
                    }
                    // the file vanishes / is torn after it was stored: FileJar must refuse, not panic
                    if let Ok(bytes) = std::fs::read(&stored) {
                        let cut = bytes.len() / 2;
                        let _ = std::fs::write(&stored, &bytes[..cut]);
                        match no_panic(|| entries_via_dukebox(&fj)) {
                            Ok(Ok(names)) if cut < bytes.len() => out.push(Violation::new("T2", "reader-ok-with-wrong-data", "filejar.torn", format!("a jar file cut to {cut} of {} bytes opened with {} entries", bytes.len(), names.len()))),
                            Ok(_) => st.probe("sink.filejar.torn_refused"),
                            Err(pm) => out.push(Violation::new("T2", "panic", format!("filejar-torn:{}", panic_path(&pm)), pm)),
                        }
                        let _ = std::fs::remove_file(&stored);
                        match no_panic(|| entries_via_dukebox(&fj)) {
                            Ok(Ok(_)) => out.push(Violation::new("T2", "reader-ok-with-wrong-data", "filejar.vanished", "a jar file that is gone opened")),
                            Ok(Err(_)) => st.probe("sink.filejar.vanished_refused"),
                            Err(pm) => out.push(Violation::new("T2", "panic", format!("filejar-vanished:{}", panic_path(&pm)), pm)),
                        }
                    }
                }
            }
        }
        _ => {
            // a device that has no room at all (real ENOSPC from the kernel on the public route)
            let full = std::path::Path::new("/dev/full");
            if !full.exists() {
                st.probe("sink.dev_full_unavailable");
                return out;
            }
            st.tier("T2");
            st.fired(&["enospc_dev_full"]);
            obs.u64(0x5f);
            match no_panic(|| parsed.put_to_file(full).map(|_| ())) {
                Err(pm) => out.push(Violation::new("T2", "panic", format!("put_to_file:{}", panic_path(&pm)), pm)),
                Ok(Err(_)) => st.probe("sink.put_to_file.dev_full_refused"),
                Ok(Ok(())) => out.push(Violation::new("T2", "writer-ok-with-incomplete-sink", "put_to_file.dev-full", "Ok although the device accepted no byte")),
            }
        }
    }
    out
}

impl Engine for C07 {
    type Plan = Plan;
    fn id(&self) -> &'static str {
        "C07"
    }
    fn runs(&self, tier: Tier) -> u64 {
        match tier {
            Tier::Quick => 40_000,
            Tier::Thorough => 1_000_000,
        }
    }

    fn gen(&self, rng: &mut Rng, tier: Tier, _run: u64) -> Plan {
        let mut w = rng.split("workload");
        let mut s = rng.split("schedule");
        let mut f = rng.split("faults");
        let size = w.below(10);
        let n_total = match size {
            0..=3 => w.range(1, 2),
            4..=7 => w.range(2, 4),
            _ => w.range(4, 8),
        } as usize;
        let n_corpus = if w.chance(30) { w.range(1, n_total.min(4) as u64) as usize } else { 0 };
        let n_gen = n_total - n_corpus;
        // swarm: feature mask. More than half of the runs carry neither frames nor debug tables, so that the
        // known duke losses (frames dropped on write, local variables dropped on read) do not touch them.
        let exact = w.chance(55);
        let mut features = if w.chance(35) {
            feat::ALL
        } else {
            let mut m = 0u32;
            for b in 0..20 {
                if w.chance(65) {
                    m |= 1 << b;
                }
            }
            m
        };
        if w.chance(85) {
            features |= feat::CODE;
        }
        if exact {
            features &= !(feat::FRAMES | feat::DEBUG_TABLES);
        }
        let big = tier == Tier::Thorough && w.chance(10);
        let cfg = WCfg {
            n_gen,
            n_corpus,
            features,
            max_members: if big { 8 } else { [1usize, 2, 3, 5][w.usize(4)] },
            max_insns: if big { 300 } else { [6usize, 16, 40][w.usize(3)] },
            link_pct: [30u32, 60, 90][w.usize(3)],
            map_class_pct: [40u32, 75, 75, 100][w.usize(4)],
            map_member_pct: [30u32, 60, 90][w.usize(3)],
            random_layout: w.chance(50),
            unicode: w.chance(40),
        };
        let wl = build(&mut w, &cfg);
        // non-class entries and directories
        let mut entries: Vec<PEntry> = vec![];
        let mut others: Vec<PEntry> = vec![];
        if w.chance(75) {
            const DIRS: [&str; 6] = ["META-INF/", "a/", "a/b/", "corp/", "assets/", "n/"];
            const FILES: [&str; 9] = ["META-INF/MANIFEST.MF", "assets/data.bin", "a/b/readme.txt", "empty", "Foo.class.txt", "x.classy", "r\u{e9}sum\u{e9}.txt", "a/Thing.java", "corp/res.properties"];
            let nd = w.below(3);
            for _ in 0..nd {
                let n = *w.pick(&DIRS);
                if !others.iter().any(|e| e.name == n) {
                    others.push(PEntry { name: n.into(), dir: true, data: vec![] });
                }
            }
            let nf = w.range(0, 3);
            for _ in 0..nf {
                let n = *w.pick(&FILES);
                if others.iter().any(|e| e.name == n) {
                    continue;
                }
                let data: Vec<u8> = match n {
                    "empty" => vec![],
                    "META-INF/MANIFEST.MF" => b"Manifest-Version: 1.0\r\nMain-Class: a.Main\r\n\r\n".to_vec(),
                    _ => {
                        // now and then an entry the deflate encoder cannot take in one piece (missed seeded change C07-6)
                        let len = if w.chance(4) { w.range(70_000, 260_000) } else if w.chance(10) { w.range(5000, 20000) } else { w.below(200) };
                        (0..len).map(|_| w.below(256) as u8).collect()
                    }
                };
                others.push(PEntry { name: n.into(), dir: false, data });
            }
        }
        let mut classes: Vec<PEntry> = wl.classes.into_iter().map(|(name, data)| PEntry { name, dir: false, data }).collect();
        // rarely one method at the 16-bit jump limit (the writer's retry loop runs): missed seeded change C07-4
        if w.chance(if tier == Tier::Thorough { 4 } else { 2 }) {
            let mut b = w.split("big-jump");
            let kinds = refclass::gen::BigJumpKind::ALL;
            let kind = kinds[b.usize(kinds.len())];
            let bj = refclass::gen::gen_big_jump_method(&mut b, kind);
            if let Ok(e) = refclass::encode(&bj.sem, &refclass::Layout::default()) {
                let name = format!("{}.class", jname(&bj.sem.this_class));
                if !classes.iter().any(|c| c.name == name) {
                    classes.push(PEntry { name, dir: false, data: e.bytes });
                }
            }
        }
        if w.chance(70) {
            // the usual shape: directories and resources first
            entries.extend(others);
            entries.extend(classes);
        } else {
            entries.extend(classes);
            entries.extend(others);
            w.shuffle(&mut entries);
        }
        let mut p = Plan { entries, deflate: w.chance(60), map: wl.map, map_order: if w.chance(30) { 0 } else { w.next() | 1 }, io: IoPlan::plain(), provider_healthy: false, sink: None, sink_route: 0, lazy: None, overlay: vec![], poison_first: false, lib: vec![] };
        p.poison_first = rng.split("poison-first").chance(5);
        {
            let mut lr = rng.split("library");
            if lr.chance(10) {
                // K: a main-jar class directly below Object, renamed by the mappings, with a method the mappings do not name
                let mut cands: Vec<(Sem, String, String)> = vec![];
                for e in &p.entries {
                    if e.dir || !is_class(&e.name) {
                        continue;
                    }
                    let Ok(sem) = refclass::parse(&e.data) else { continue };
                    let Some(k) = sem.this_class.to_str() else { continue };
                    if !sem.interfaces.is_empty() || sem.super_class.as_ref().and_then(|x| x.to_str()).as_deref() != Some("java/lang/Object") {
                        continue;
                    }
                    let Some(cm) = p.map.classes.get(&k) else { continue };
                    if !matches!(cm.names.first(), Some(Some(_))) {
                        continue;
                    }
                    for m in &sem.methods {
                        if let (Some(n), Some(d)) = (m.name.to_str(), m.desc.to_str()) {
                            if !n.starts_with('<') && n.is_ascii() && d.is_ascii() && !cm.methods.contains_key(&crate::refmap::mkey(&n, &d)) {
                                cands.push((sem.clone(), n, d));
                            }
                        }
                    }
                }
                if !cands.is_empty() && !p.map.classes.contains_key("verif/lib/Base") {
                    let (k, n, d) = lr.pick(&cands).clone();
                    let base = Sem {
                        major: 52,
                        access: 0x0421,
                        this_class: JStr::from_str("verif/lib/Base"),
                        super_class: Some(JStr::from_str("java/lang/Object")),
                        methods: vec![refclass::sem::Method { access: 0x0401, name: JStr::from_str(&n), desc: JStr::from_str(&d), ..Default::default() }],
                        ..Sem::default()
                    };
                    let copy = Sem { major: 52, access: 0x0021, this_class: k.this_class.clone(), super_class: Some(JStr::from_str("verif/lib/Base")), ..Sem::default() };
                    if let (Ok(b), Ok(c)) = (refclass::encode(&base, &refclass::Layout::default()), refclass::encode(&copy, &refclass::Layout::default())) {
                        p.lib.push(PEntry { name: "verif/lib/Base.class".into(), dir: false, data: b.bytes });
                        p.lib.push(PEntry { name: format!("{}.class", jname(&k.this_class)), dir: false, data: c.bytes });
                        let mut cm = crate::refmap::ClassM { names: vec![Some("verif/libx/Base".to_string())], ..Default::default() };
                        cm.methods.insert(crate::refmap::mkey(&n, &d), crate::refmap::MemberM { names: vec![Some(format!("{n}_fromlib"))], ..Default::default() });
                        p.map.classes.insert("verif/lib/Base".to_string(), cm);
                    }
                }
            }
        }
        // ---- a caller-written remapper over the mapping-based one: new names for members (declared or referred to in
        // the jar) of classes the mappings do not rename (missed seeded change C07-10)
        {
            let mut o = rng.split("overlay");
            if o.chance(15) {
                let mapped: BTreeSet<String> = p.map.classes.iter().filter(|(_, c)| matches!(c.names.first(), Some(Some(_)))).map(|(k, _)| k.clone()).collect();
                let mut cands: Vec<(bool, JStr, JStr, JStr)> = vec![];
                for e in &p.entries {
                    if !e.dir && is_class(&e.name) {
                        if let Ok(sem) = refclass::parse(&e.data) {
                            cands.extend(crate::refremap::member_keys(&sem));
                        }
                    }
                }
                cands.retain(|(_, owner, name, desc)| {
                    let ascii = |j: &JStr| j.as_bytes().iter().all(|b| (0x21..0x7f).contains(b));
                    ascii(owner) && ascii(name) && ascii(desc) && owner.as_bytes().first() != Some(&b'[') && name.as_bytes().first() != Some(&b'<') && !mapped.contains(&jname(owner))
                });
                cands.sort();
                cands.dedup();
                let n = o.range(1, 3) as usize;
                for i in 0..n.min(cands.len()) {
                    let k = o.usize(cands.len());
                    let (field, owner, name, desc) = cands[k].clone();
                    if p.overlay.iter().any(|x| x.field == field && x.owner == jname(&owner) && x.name == jname(&name) && x.desc == jname(&desc)) {
                        continue;
                    }
                    p.overlay.push(Ov { field, owner: jname(&owner), name: jname(&name), desc: jname(&desc), to: format!("{}_ov{i}", jname(&name)) });
                }
            }
        }
        // ---- schedule and faults
        let mode = s.below(10);
        if mode >= 3 && (mode <= 5 || s.chance(50)) {
            p.io = IoPlan::gen_legal(&mut s);
        }
        if mode >= 6 {
            let jar = build_jar(&to_entries(&p), p.deflate);
            let len = jar.len() as u64;
            let (cd_off, cd_size) = central_dir(&jar);
            p.provider_healthy = f.chance(50);
            let nf = f.range(1, 2);
            for _ in 0..nf {
                let region = f.below(4);
                let off = match region {
                    0 if cd_off > 0 => f.below(cd_off),                      // local headers + (compressed) data
                    1 if cd_size > 0 => cd_off + f.below(cd_size),           // central directory
                    2 => len.saturating_sub(1 + f.below(22.min(len.max(1)))), // end-of-central-directory record
                    _ => f.below(len.max(1)),
                };
                // a whole field of one central directory record wiped (crc-32 at +16, compressed size at +20, uncompressed
                // size at +24): a flipped bit never makes a size say 0 (missed seeded change C07-17: entries whose
                // directory record says "0 bytes" not read)
                let cd_records: Vec<u64> = jar.windows(4).enumerate().filter(|(i, w)| *i as u64 >= cd_off && *w == [0x50, 0x4b, 0x01, 0x02]).map(|(i, _)| i as u64).collect();
                if !cd_records.is_empty() && f.chance(15) {
                    let rec = *f.pick(&cd_records);
                    p.io.faults.push(Fault::Zero { off: rec + *f.pick(&[16u64, 20, 24, 24]), len: 4 });
                    continue;
                }
                let fault = match f.below(8) {
                    0 | 1 => Fault::Flip { off, bit: f.below(8) as u8 },
                    2 | 3 => Fault::Eof { at: if f.chance(20) { len - 1 } else { off } },
                    4 => Fault::EioAtOffset { off },
                    5 | 6 => Fault::Eio { at_call: f.below(12 + 10 * p.entries.len() as u64) as u32, sticky: f.chance(50) },
                    _ => Fault::SeekFail { at_call: f.below(6 + 3 * p.entries.len() as u64) as u32 },
                };
                p.io.faults.push(fault);
            }
        }
        // ---- sink phase: only when the source medium is healthy, so that one run has one fault story
        if p.io.faults.is_empty() {
            let mut k = rng.split("sink");
            if k.chance(40) {
                let approx: u64 = p.entries.iter().map(|e| 120 + 2 * e.name.len() as u64 + e.data.len() as u64).sum::<u64>() + 22;
                let route = match k.below(10) {
                    0..=5 => 0u8,
                    6 => 1,
                    7 => 2,
                    8 => 3,
                    _ => 4,
                };
                let mut io = if route == 0 && k.chance(70) { IoPlan::gen_legal(&mut k) } else { IoPlan::plain() };
                if route == 0 && k.chance(60) {
                    let fault = match k.below(10) {
                        0..=4 => Fault::Enospc {
                            after_bytes: match k.below(4) {
                                0 => k.below(64),                                   // inside the first local header
                                1 => approx.saturating_sub(k.below(160)),           // around the central directory / end record
                                _ => k.below(approx + approx / 4 + 1),
                            },
                        },
                        5 | 6 => Fault::WriteEio { at_call: k.below(8 + 12 * p.entries.len() as u64) as u32, sticky: k.chance(50) },
                        7 | 8 => Fault::WriteZero { at_call: k.below(8 + 12 * p.entries.len() as u64) as u32 },
                        _ => Fault::FlushErr,
                    };
                    io.faults.push(fault);
                }
                p.sink = Some(io);
                p.sink_route = route;
            }
        }
        // ---- the entry-level seam
        {
            let mut z = rng.split("lazy-jar");
            if z.chance(20) {
                // the provider walks the entries once, remap once: about 3 operations per entry and walk
                let span = 7 * p.entries.len() as u64 + 6;
                let mut lp = LazyPlan::draw(&mut z, span, 2 * p.entries.len() as u64);
                lp.odd_names = z.chance(25);
                lp.renumber = z.chance(25);
                p.lazy = Some(lp);
            }
        }
        // debugging aid: VERIF_C07_DUMP_RUN=<run index> writes that run's plan as a replay file
        if let Some(want) = DUMP_RUN.get_or_init(|| std::env::var("VERIF_C07_DUMP_RUN").ok().and_then(|v| v.parse::<u64>().ok())) {
            if *want == _run {
                let file = json!({"property": "C07", "run": _run, "identity": "", "plan": p});
                let _ = std::fs::write(format!("/tmp/C07-run-{_run}.json"), serde_json::to_string(&file).unwrap_or_default());
            }
        }
        p
    }

    fn exec(&self, p: &Plan, st: &mut RunStats) -> Vec<Violation> {
        if p.poison_first && crate::c02::poison_write() {
            st.probe("poison_write_first");
        }
        let mut out: Vec<Violation> = vec![];
        let mut seen: BTreeSet<String> = BTreeSet::new();
        let mut obs = Digest::new();
        let entries = to_entries(p);
        let jar = build_jar(&entries, p.deflate);

        // ---------------- shape and probes of the workload
        let mut shape = Digest::new();
        shape.u64(entries.len() as u64);
        shape.u64(p.map.shape());
        let mut all_exact = true;
        let mut ncls = 0;
        for (n, d) in &entries {
            match d {
                EntryData::Dir => st.probe("jar.dirs"),
                EntryData::File(_) if !is_class(n) => st.probe("jar.non_class_entries"),
                EntryData::File(b) => {
                    ncls += 1;
                    match refclass::parse(b) {
                        Ok(s) => {
                            shape.u64(s.methods.len() as u64 * 64 + s.fields.len() as u64);
                            let fr = s.methods.iter().any(|m| m.code.as_ref().is_some_and(|c| !c.frames.is_empty()));
                            let lv = s.methods.iter().any(|m| m.code.as_ref().is_some_and(|c| !c.local_vars.is_empty() || !c.local_var_types.is_empty()));
                            if fr {
                                st.probe("class.with_frames");
                            }
                            if lv {
                                st.probe("class.with_local_vars");
                            }
                            if fr || lv {
                                all_exact = false;
                            }
                            if n.starts_with("corp/") {
                                st.probe("class.corpus");
                            }
                            if b.len() > 30_000 {
                                st.probe("class.big_jump");
                            }
                        }
                        Err(e) => {
                            // the plan is the workload; a class the reference cannot read is not a C07 input
                            st.notes.push(format!("plan class {n:?} does not parse: {}", e.what));
                            st.probe("plan_class_unparseable");
                            st.obs = obs;
                            return out;
                        }
                    }
                }
            }
        }
        st.shape = shape.0;
        if ncls > 0 && all_exact {
            st.probe("run.without_frames_and_local_vars");
        }

        // ---------------- T0: plain medium against the reference
        st.tier("T0");
        let r0 = reference_with_lib(&entries, &p.lib, &entries, &p.map, &p.overlay, false);
        for (k, v) in &r0.changed {
            st.probe_n(k, *v);
        }
        let t0 = run_real(&jar, None, &IoPlan::plain(), &p.map, &p.overlay, &p.lib, p.map_order, st);
        let t0_entries = match t0.out {
            RealOut::Panic(pm) => {
                push_dedup(&mut out, &mut seen, Violation::new("T0", "panic", format!("remap:{}", panic_path(&pm)), pm));
                st.obs = obs;
                return out;
            }
            RealOut::Err { stage, msg, norm } => {
                push_dedup(&mut out, &mut seen, Violation::new("T0", "refused-wellformed", format!("err.{stage}:{norm}"), msg));
                obs.u64(2);
                st.obs = obs;
                return out;
            }
            RealOut::Ok(v) => v,
        };
        obs.u64(1);
        digest_entries(&mut obs, &t0_entries);
        let mut t0_paths: BTreeSet<String> = BTreeSet::new();
        for (path, detail) in judge(&r0, &t0_entries, false, st) {
            t0_paths.insert(abstract_indices(&path));
            let class = if path.starts_with("class.parse") || path.starts_with("class.validate") || path.starts_with("entries.duplicate") { "invalid-output" } else { "semantic-mismatch" };
            push_dedup(&mut out, &mut seen, Violation::new("T0", class, path, detail));
        }

        // ---------------- T1 / T2: the same jar through the simulated medium
        if !p.io.is_plain() {
            let legal = p.io.legal_only();
            let tier = if legal { "T1" } else { "T2" };
            st.tier(if legal { "T1" } else { "T2" });
            let hier = if p.provider_healthy && !legal { Some(&jar[..]) } else { None };
            let run = run_real(&jar, hier, &p.io, &p.map, &p.overlay, &p.lib, p.map_order, st);
            if run.fuel_exhausted {
                push_dedup(&mut out, &mut seen, Violation::new(tier, "runaway", "remap", "medium fuel exhausted"));
            }
            match run.out {
                RealOut::Panic(pm) => push_dedup(&mut out, &mut seen, Violation::new(tier, "panic", format!("remap:{}", panic_path(&pm)), pm)),
                RealOut::Err { stage, msg, .. } => {
                    obs.u64(4);
                    if legal {
                        push_dedup(&mut out, &mut seen, Violation::new("T1", "schedule-dependence", format!("result.{stage}"), format!("legal short / interrupted reads made the operation fail: {msg}")));
                    } else {
                        st.probe(match stage {
                            "provider" => "t2.err_in_provider",
                            "remap" => "t2.err_in_remap",
                            _ => "t2.err_elsewhere",
                        });
                    }
                }
                RealOut::Ok(v) => {
                    obs.u64(3);
                    digest_entries(&mut obs, &v);
                    if legal {
                        if v != t0_entries {
                            let at = v.iter().zip(&t0_entries).position(|(a, b)| a != b).unwrap_or(v.len().min(t0_entries.len()));
                            push_dedup(&mut out, &mut seen, Violation::new("T1", "schedule-dependence", "entries", format!("output differs from the plain-medium output at entry {at} ({} vs {} entries)", v.len(), t0_entries.len())));
                        }
                    } else {
                        let delivered = SimJar::new(jar.clone(), &p.io).delivered();
                        if delivered == jar {
                            // nothing but transient errors: the answer must be the plain-medium answer
                            st.probe("t2.ok_on_intact_bytes");
                            if v != t0_entries {
                                push_dedup(&mut out, &mut seen, Violation::new("T2", "reader-ok-with-wrong-data", "entries", format!("Ok, but the output differs from the plain-medium output ({} vs {} entries; faults fired: {:?})", v.len(), t0_entries.len(), st.faults_fired.keys().collect::<Vec<_>>())));
                            }
                        } else {
                            match open_entries(&delivered) {
                                Err(e) => push_dedup(&mut out, &mut seen, Violation::new("T2", "reader-ok-with-wrong-data", "delivered-unreadable", format!("Ok with {} entries, but the delivered bytes do not read as a jar over a plain cursor: {e:#}", v.len()))),
                                Ok(dl) => {
                                    st.probe("t2.ok_on_altered_bytes");
                                    let hier_entries = if p.provider_healthy { entries.clone() } else { dl.clone() };
                                    let r2 = reference_with_lib(&hier_entries, &p.lib, &dl, &p.map, &p.overlay, true);
                                    if r2.unparseable > 0 {
                                        st.probe_n("lenient_accept", r2.unparseable as u64);
                                    }
                                    for (path, detail) in judge(&r2, &v, r2.unparseable > 0, st) {
                                        // a defect already reported for this workload on the plain medium is not a fault finding
                                        if t0_paths.contains(&abstract_indices(&path)) {
                                            continue;
                                        }
                                        push_dedup(&mut out, &mut seen, Violation::new("T2", "reader-ok-with-wrong-data", format!("delivered.{path}"), detail));
                                    }
                                }
                            }
                        }
                    }
                }
            }
            if !legal {
                // heal: the same operation on the healthy medium gives the plain answer again
                let again = run_real(&jar, None, &IoPlan::plain(), &p.map, &p.overlay, &p.lib, p.map_order, st);
                match again.out {
                    RealOut::Ok(v) if v == t0_entries => {}
                    RealOut::Ok(_) => push_dedup(&mut out, &mut seen, Violation::new("T2", "residue-after-heal", "entries", "the healthy retry differs from the first plain run")),
                    RealOut::Err { stage, msg, .. } => push_dedup(&mut out, &mut seen, Violation::new("T2", "residue-after-heal", format!("result.{stage}"), msg)),
                    RealOut::Panic(pm) => push_dedup(&mut out, &mut seen, Violation::new("T2", "panic", format!("retry:{}", panic_path(&pm)), pm)),
                }
            }
        }
        // ---------------- the entry-level seam: the same entries behind a LazyJar
        if let Some(lp) = &p.lazy {
            let q: quill::tree::mappings::Mappings<2, Ns> = to_quill::<2>(&p.map, if p.map_order == 0 { None } else { Some(Rng::new(p.map_order)) }.as_mut()).expect("mapping model admissible for quill");
            let lj = std::sync::Arc::new(LazyJar::new(entries.clone(), lp));
            struct Shared(std::sync::Arc<LazyJar>);
            impl Jar for Shared {
                type Opened<'a> = <LazyJar as Jar>::Opened<'a> where Self: 'a;
                fn open(&self) -> anyhow::Result<Self::Opened<'_>> {
                    self.0.open()
                }
                fn put_to_file<'a>(&'a self, s: &'a std::path::Path) -> anyhow::Result<&'a std::path::Path> {
                    self.0.put_to_file(s)
                }
            }
            let _g = quiet::on();
            let res = no_panic(|| -> anyhow::Result<Vec<(String, EntryData)>> {
                let prov = lj.get_super_classes_provider()?;
                let remapper = Overlay { inner: q.remapper_b_first_to_second(&prov)?, ov: &p.overlay };
                let parsed = dukebox::remap::remap(Shared(lj.clone()), remapper)?;
                let mem = parsed.to_mem()?;
                open_entries(&mem.data)
            });
            drop(_g);
            lj.report(st);
            let failed = lj.failed() > 0;
            let tier = if failed { "T2" } else { "T1" };
            st.tier(if failed { "T2" } else { "T1" });
            obs.u64(0x1a2);
            match res {
                Err(pm) => push_dedup(&mut out, &mut seen, Violation::new(tier, "panic", format!("remap:{}", panic_path(&pm)), pm)),
                Ok(Err(e)) => {
                    obs.u64(2);
                    if failed {
                        st.probe("lazy.err_after_failed_entry_operation");
                    } else {
                        push_dedup(&mut out, &mut seen, Violation::new("T1", "schedule-dependence", "lazy.result", format!("fails on a jar that hands out its entries one by one although no entry operation failed: {e:#}")));
                    }
                }
                Ok(Ok(v)) => {
                    obs.u64(1);
                    if failed {
                        st.probe("lazy.ok_after_failed_entry_operation");
                    }
                    // the data is intact whatever failed in between: an answer must be THE answer (the order of the output
                    // entries is not the property's subject: with a drawn names order the comparison is by entry name)
                    let (mut v, mut t0_sorted) = (v, t0_entries.clone());
                    if lp.odd_names {
                        // class entries were handed out under names that do not end in `.class`: nothing says under which
                        // entry name such a class comes back, so classes are compared by their own name (missed seeded
                        // change C07-18: only entries that LOOK like classes were remapped)
                        let rekey = |e: &mut Vec<(String, EntryData)>| {
                            for (n, d) in e.iter_mut() {
                                if let EntryData::File(b) = d {
                                    if let Some(name) = refclass::parse(b).ok().and_then(|s| s.this_class.to_str()) {
                                        *n = format!("class {name}");
                                    }
                                }
                            }
                        };
                        rekey(&mut v);
                        rekey(&mut t0_sorted);
                    }
                    if lp.names_order != 0 || lp.odd_names || lp.renumber {
                        v.sort_by(|a, b| a.0.cmp(&b.0));
                        t0_sorted.sort_by(|a, b| a.0.cmp(&b.0));
                    }
                    let t0_entries = &t0_sorted;
                    if v != *t0_entries {
                        let at = v.iter().zip(t0_entries.iter()).position(|(a, b)| a != b).unwrap_or(v.len().min(t0_entries.len()));
                        let (class, what) = if failed { ("reader-ok-with-wrong-data", "Ok although an entry operation failed, and") } else { ("schedule-dependence", "no entry operation failed, but") };
                        push_dedup(&mut out, &mut seen, Violation::new(tier, class, "lazy.entries", format!("{what} the output differs from the output for the zip-backed jar at entry {at} ({} vs {} entries)", v.len(), t0_entries.len())));
                    }
                }
            }
        }
        // ---------------- sink phase: the remapped jar written out through a simulated sink / onto the simulated disk
        if let (Some(sink), true) = (&p.sink, p.io.faults.is_empty()) {
            for v in sink_phase(&jar, &p.map, &p.overlay, p.map_order, sink, p.sink_route, &t0_entries, &mut obs, st) {
                push_dedup(&mut out, &mut seen, v);
            }
        }
        st.obs = obs;
        out
    }

    fn shrink(&self, p: &Plan) -> Vec<Plan> {
        let mut c: Vec<Plan> = vec![];
        for io in shrink_io(&p.io).into_iter().take(12) {
            let mut q = p.clone();
            q.io = io;
            c.push(q);
        }
        if p.poison_first {
            let mut q = p.clone();
            q.poison_first = false;
            c.push(q);
        }
        if !p.lib.is_empty() {
            let mut q = p.clone();
            q.lib.clear();
            c.push(q);
        }
        if !p.overlay.is_empty() {
            let mut q = p.clone();
            q.overlay.clear();
            c.push(q);
            for i in 0..p.overlay.len() {
                let mut q = p.clone();
                q.overlay.remove(i);
                c.push(q);
            }
        }
        if let Some(lp) = &p.lazy {
            let mut q = p.clone();
            q.lazy = None;
            c.push(q);
            for l in lp.smaller() {
                let mut q = p.clone();
                q.lazy = Some(l);
                c.push(q);
            }
        }
        if let Some(sink) = &p.sink {
            let mut q = p.clone();
            q.sink = None;
            c.push(q);
            for io in shrink_io(sink).into_iter().take(12) {
                let mut q = p.clone();
                q.sink = Some(io);
                c.push(q);
            }
        }
        if p.provider_healthy && p.io.faults.is_empty() {
            let mut q = p.clone();
            q.provider_healthy = false;
            c.push(q);
        }
        let n = p.entries.len();
        // keep a single class (and nothing else)
        if n > 1 {
            for i in 0..n {
                if is_class(&p.entries[i].name) && !p.entries[i].dir {
                    let mut q = p.clone();
                    q.entries = vec![p.entries[i].clone()];
                    c.push(q);
                }
            }
            // drop all non-class entries at once
            if p.entries.iter().any(|e| e.dir || !is_class(&e.name)) && p.entries.iter().any(|e| !e.dir && is_class(&e.name)) {
                let mut q = p.clone();
                q.entries.retain(|e| !e.dir && is_class(&e.name));
                c.push(q);
            }
            for i in 0..n {
                let mut q = p.clone();
                q.entries.remove(i);
                c.push(q);
            }
        }
        // the mapping set: all of it, halves, single classes, members
        if !p.map.classes.is_empty() {
            let mut q = p.clone();
            q.map.classes.clear();
            c.push(q);
        }
        for m in crate::c03::shrink_mapset(&p.map).into_iter().take(40) {
            let mut q = p.clone();
            q.map = m;
            c.push(q);
        }
        if p.map_order != 0 {
            let mut q = p.clone();
            q.map_order = 0;
            c.push(q);
        }
        if p.deflate {
            let mut q = p.clone();
            q.deflate = false;
            c.push(q);
        }
        // inside the classes: drop members and attributes (re-encoded canonically)
        for i in 0..n {
            if p.entries[i].dir || !is_class(&p.entries[i].name) {
                continue;
            }
            let Ok(s) = refclass::parse(&p.entries[i].data) else { continue };
            for t in shrink_sem(&s).into_iter().take(if n <= 2 { 400 } else { 12 }) {
                let mut layout = refclass::Layout::default();
                layout.emit_map = false;
                if let Ok(enc) = refclass::encode(&t, &layout) {
                    if enc.bytes != p.entries[i].data {
                        let mut q = p.clone();
                        q.entries[i].data = enc.bytes;
                        c.push(q);
                    }
                }
            }
        }
        c
    }

    fn size(&self, p: &Plan) -> (u64, u64) {
        let bytes: usize = p.entries.iter().map(|e| e.data.len()).sum();
        ((p.entries.len() + p.map.count()) as u64 + bytes as u64 / 64 + p.sink.is_some() as u64, (p.io.faults.len() + p.sink.as_ref().map_or(0, |s| s.faults.len()) + p.lazy.as_ref().map_or(0, |l| l.faults())) as u64)
    }
    fn rule(&self) -> String {
        "one run = one jar (1-8 classes: refclass-generated classes re-pointed at each other / at classes outside the jar, plus javac corpus classes; non-class entries; directories; stored or deflated) x one two-namespace mapping set over those classes (partial, package moves, inner classes, members declared in / inherited from super types inside and outside the jar), turned into the REAL quill remapper_b over the REAL JarSuperProv x one medium schedule (chunk ceiling, short %, EINTR %) x 0-2 faults (EIO at call n / at offset, torn jar, flipped byte aimed at data / central directory / end record, seek failure; on both readers of the jar or on remap only); distinct by (workload shape digest, I/O event-log digest); a run is non-trivial when a short transfer, EINTR or fault actually fired".into()
    }
    fn assumptions(&self) -> Vec<String> {
        vec![
            "reference remapper, rules taken from the property statement: class = table lookup else unchanged; descriptor = every L...; rewritten; field/method (owner,name,desc) = owner's table, then the owner's super types transitively, first hit wins, else name unchanged and descriptor mapped".into(),
            "ADOPTED from quill/src/remapper.rs where the property leaves a choice: (a) the member lookup only walks through classes that have a mapping entry with both names - an unmapped owner answers 'unchanged' even if a super type maps the member (probe lookup_blocked_by_unmapped_owner counts how often that mattered); (b) search order is depth first, super class before interfaces in declaration order, duplicates removed; (c) a member reference whose owner is an array class keeps name and descriptor unmapped, the owner is mapped as a descriptor; (d) array class names everywhere are mapped as descriptors; (e) declared fields and methods are answered by the same inherited lookup as references (an override gets the name its super type's method gets)".into(),
            "the super types known to the remapper are those of the classes in the jar (Jar::get_super_classes_provider, as in /repo/src/main.rs map_calamus_jar); classes outside the jar can be owners in the mapping set but contribute no super types".into(),
            "positions the reference renames although remap.rs currently does not (reported as findings): invokedynamic / constant-dynamic descriptors, enum constants in annotations (a field reference: owner and descriptor from type_desc), uses/provides/main-class of a module, generic signatures (every class name of a class type is looked up in the class table)".into(),
            "positions deliberately NOT renamed by the reference because the remapper has no answer for them: invokedynamic / constant-dynamic names, annotation element names, method parameter names, local variable names, SourceFile, module / package names".into(),
            "tolerances (either answer accepted): a signature containing a `.Inner` class-type suffix or not parseable as a JVMS 4.7.9.1 signature is not compared when it differs; a record component name may stay or take the new name of the field it shares name and descriptor with; InnerClasses.inner_name may stay or become the simple name of the renamed inner class".into(),
            "every difference between output and reference is reported (component-wise, not first-only); a difference that duke's own read_class+write_class round trip of the same input class (no renaming) already shows at the same path is filed under `rw-loss.<path>` (owned by C01/C02; at the time of writing: parameter annotations dropped on read, an empty Record attribute lost), all others under `remap.<path>`; the classification is recomputed against the current tree in every run, so a duke repair moves a path from rw-loss to exact comparison automatically".into(),
            "mapping sets are injective on class names and never map two entries of a jar to one name; <init>/<clinit> are never renamed; hierarchies are acyclic".into(),
            "T2: Err is accepted; Ok on intact delivered bytes must equal the plain-medium output; Ok on altered delivered bytes is compared with the reference over the delivered bytes (output names then follow the ENTRY names), skipping paths already reported at T0 for the same workload; a delivered class the reference parser refuses is counted (lenient_accept) and class contents are then not compared".into(),
            "sink phase (runs whose source medium carries no fault): route 0 = ParsedJar::write through hook H3 (dukebox feature verif) into a simulated Write+Seek sink - short writes must succeed, and any Ok must give a jar that re-opens to the to_mem entries (T1); an Err after an Interrupted answer is counted only (flate2's buffer dump does not retry it), as is a panic raised inside a dependency once the sink is broken (zip's debug assertions) - C07 does not speak about sinks, so only /repo's own conduct is judged; after ENOSPC / EIO / Ok(0) / flush error the writer may fail, and Ok means the sink holds a jar that re-opens to exactly those entries (T2); bytes that overwrite what the sink already holds need no room. routes 1-4 = the public put_to_file on the simulated directory (fresh file; /dev/full; missing parent directory; over an existing longer file), the stored file re-opened over a plain cursor and through dukebox FileJar, then torn and removed (FileJar must refuse). Jar bytes are only ever observed as entries (name, kind, content)".into(),
            "harness profile: opt-level 2 with overflow checks and debug assertions; stderr of /repo's remap (one eprintln per non-class entry / signature) is discarded while the real code runs".into(),
        ]
    }
    fn real_and_stub(&self) -> serde_json::Value {
        json!({
            "real": ["dukebox::remap::remap", "dukebox::storage::{ParsedJar::to_mem, ParsedJar::write (hook H3), ParsedJar::put_to_file, FileJar::open, OpenedJar for ZipArchive<R>, Jar::get_super_classes_provider, ClassRepr}", "quill::tree::mappings::Mappings::remapper_b_first_to_second", "quill::remapper::{BRemapperImpl, JarSuperProv}", "duke::{read_class, read_class_multi, write_class}", "zip::ZipArchive over the simulated reader (central directory, inflate, CRC)"],
            "stub": ["jar byte medium (SimJar / SimReader)", "jar sink (SimWriter with Seek; private tmpfs directory and /dev/full for put_to_file)", "zip crate assembling the input jar and re-opening the output jar over a plain cursor (trusted)"],
            "reference": ["refremap::{Rho, rename, rename_signature, all_diffs}", "refclass::{parse, validate, encode, gen_class}"]
        })
    }
    fn expected_probes(&self) -> Vec<&'static str> {
        let mut v: Vec<&'static str> = Pos::ALL.iter().map(|p| p.probe()).collect();
        v.extend([
            "inherited.via_in_jar_super",
            "inherited.via_out_of_jar_super",
            "inherited.depth_ge_2",
            "package_move",
            "inner_class_renamed",
            "unmapped_class",
            "array_owner_member_ref",
            "lookup_blocked_by_unmapped_owner",
            "run.without_frames_and_local_vars",
            "class.with_frames",
            "class.with_local_vars",
            "class.corpus",
            "class.big_jump",
            "class_exact_match",
            "jar.non_class_entries",
            "jar.dirs",
            "t2.err_in_provider",
            "t2.err_in_remap",
            "t2.ok_on_intact_bytes",
            "t2.ok_on_altered_bytes",
            "io.eintr",
            "io.short_transfers",
            "lazy.err_after_failed_entry_operation",
            "sink.write",
            "sink.err_after_fault",
            "sink.put_to_file.ok",
            "sink.put_to_file.over_longer_file",
            "sink.put_to_file.missing_parent_refused",
            "sink.put_to_file.dev_full_refused",
            "sink.filejar.torn_refused",
            "sink.filejar.vanished_refused",
        ]);
        v
    }
}

fn is_default<T: Default + PartialEq>(x: &T) -> bool {
    *x == T::default()
}

/// Smaller variants of one class: fewer members, fewer attributes.
fn shrink_sem(s: &Sem) -> Vec<Sem> {
    let mut c = vec![];
    if !s.methods.is_empty() || !s.fields.is_empty() {
        let mut t = s.clone();
        t.methods.clear();
        t.fields.clear();
        t.record = None;
        c.push(t);
    }
    if s.methods.len() > 1 {
        for i in 0..s.methods.len() {
            let mut t = s.clone();
            t.methods = vec![s.methods[i].clone()];
            c.push(t);
        }
    }
    for i in 0..s.methods.len() {
        let mut t = s.clone();
        t.methods.remove(i);
        c.push(t);
    }
    if !s.fields.is_empty() {
        let mut t = s.clone();
        t.fields.clear();
        t.record = None;
        c.push(t);
    }
    for i in 0..s.fields.len() {
        let mut t = s.clone();
        t.fields.remove(i);
        c.push(t);
    }
    // class-level attributes
    macro_rules! clear {
        ($($f:ident),*) => { $( if !is_default(&s.$f) { let mut t = s.clone(); t.$f = Default::default(); c.push(t); } )* };
    }
    clear!(inner_classes, enclosing_method, signature, annotations, type_annotations, nest_host, nest_members, permitted_subclasses, record, module_packages, module_main_class, unknown, source_file, source_debug_extension, interfaces);
    // per method
    for i in 0..s.methods.len() {
        let m = &s.methods[i];
        macro_rules! mclear {
            ($($f:ident),*) => { $( if !is_default(&m.$f) { let mut t = s.clone(); t.methods[i].$f = Default::default(); c.push(t); } )* };
        }
        mclear!(exceptions, method_parameters, annotation_default, parameter_annotations, annotations, type_annotations, signature, unknown);
        if let Some(code) = &m.code {
            macro_rules! cclear {
                ($($f:ident),*) => { $( if !is_default(&code.$f) { let mut t = s.clone(); t.methods[i].code.as_mut().unwrap().$f = Default::default(); c.push(t); } )* };
            }
            cclear!(frames, local_vars, local_var_types, line_numbers, exceptions, type_annotations, unknown);
            // cut the instruction list after the last instruction anything refers to
            if code.insns.len() > 1 && code.frames.is_empty() && code.exceptions.is_empty() && code.line_numbers.is_empty() && code.local_vars.is_empty() && code.local_var_types.is_empty() && is_default(&code.type_annotations) {
                for keep in [1, code.insns.len() / 2, code.insns.len() - 1] {
                    if keep >= 1 && keep < code.insns.len() && code.insns[..keep].iter().all(|x| x.targets().iter().all(|t| *t < keep)) {
                        let mut t = s.clone();
                        t.methods[i].code.as_mut().unwrap().insns.truncate(keep);
                        c.push(t);
                    }
                }
                // or keep one instruction that has no targets
                for k in 0..code.insns.len() {
                    if code.insns[k].targets().is_empty() && code.insns.len() > 1 {
                        let mut t = s.clone();
                        t.methods[i].code.as_mut().unwrap().insns = vec![code.insns[k].clone()];
                        c.push(t);
                        if c.len() > 200 {
                            break;
                        }
                    }
                }
            }
        }
    }
    for i in 0..s.fields.len() {
        let f = &s.fields[i];
        macro_rules! fclear {
            ($($x:ident),*) => { $( if !is_default(&f.$x) { let mut t = s.clone(); t.fields[i].$x = Default::default(); c.push(t); } )* };
        }
        fclear!(signature, annotations, type_annotations, unknown, constant_value);
    }
    c
}
