//! Admissibility of generated workloads, and the workload-level swarm switches of C01.
//!
//! `refclass::gen_class` produces classes that pass `refclass::validate`, but two things it draws are outside
//! what JVMS calls a well-formed class file, and the property quantifies over well-formed files only:
//!
//! * a `CONSTANT_Fieldref` whose class is an array type (JVMS 4.4.2: "In a CONSTANT_Fieldref_info structure,
//!   the class_index item may be either a class type or an interface type" - arrays have no fields);
//! * a `SourceDebugExtension` whose bytes are not a modified-UTF-8 string (JVMS 4.7.11: "represented using a
//!   modified UTF-8 string").
//!
//! `admit` rewrites exactly these (array owner -> its element class or `java/lang/Object`; debug extension ->
//! the MUTF-8 encoding of its bytes read as Latin-1). Demanding that duke accepts them would be an oracle error.
//!
//! `avoid` is different: it removes *well-formed* features that duke is already known to refuse, so that the
//! rest of such a class is still compared (a refused read hides everything else in the file). It is a swarm
//! switch of the generator: runs drawn without it keep the features and keep reporting the refusal.

use refclass::sem::*;
use refclass::{JStr, Sem};

fn fix_field_owner(m: &mut MemberRef) -> bool {
    if m.owner.as_bytes().first() == Some(&b'[') {
        let b = m.owner.as_bytes();
        let inner: &[u8] = {
            let i = b.iter().position(|c| *c != b'[').unwrap_or(b.len());
            &b[i..]
        };
        m.owner = if inner.first() == Some(&b'L') && inner.last() == Some(&b';') && inner.len() > 2 { JStr(inner[1..inner.len() - 1].to_vec()) } else { JStr::from_str("java/lang/Object") };
        true
    } else {
        false
    }
}
fn fix_handle(h: &mut Handle, n: &mut u64) {
    if (1..=4).contains(&h.kind) && fix_field_owner(&mut h.member) {
        *n += 1;
    }
}
fn fix_dynamic(d: &mut Dynamic, n: &mut u64) {
    fix_handle(&mut d.bsm, n);
    for a in &mut d.args {
        fix_const(a, n);
    }
}
fn fix_const(c: &mut Const, n: &mut u64) {
    match c {
        Const::MethodHandle(h) => fix_handle(h, n),
        Const::Dynamic(d) => fix_dynamic(d, n),
        _ => {}
    }
}

/// Makes a generated class well-formed in the two respects described above. Returns how many items were rewritten.
pub fn admit(s: &mut Sem) -> u64 {
    let mut n = 0;
    for m in &mut s.methods {
        if let Some(c) = &mut m.code {
            for i in &mut c.insns {
                match i {
                    Insn::Field(_, mr) => {
                        if fix_field_owner(mr) {
                            n += 1;
                        }
                    }
                    Insn::Ldc(k) => fix_const(k, &mut n),
                    Insn::InvokeDynamic(d) => fix_dynamic(d, &mut n),
                    _ => {}
                }
            }
        }
    }
    if let Some(b) = &s.source_debug_extension {
        if !JStr(b.clone()).is_well_formed() {
            let units: Vec<u16> = b.iter().map(|x| *x as u16).collect();
            s.source_debug_extension = Some(JStr::from_utf16(&units).0);
            n += 1;
        }
    }
    n
}

/// Workload switches: well-formed features that duke is known to refuse (each is a finding of its own, listed in
/// FINDINGS-C01.md). Bit set = the feature is removed from this run's class so that everything else is compared.
pub mod avoid {
    /// exception ranges whose `end` is the end of the code (`end_pc == code_length`)
    pub const EXC_END_AT_CODE_END: u32 = 1;
    /// version 67.65535 (preview class file of the newest supported major)
    pub const NEWEST_PREVIEW_MINOR: u32 = 2;
    pub const ALL: u32 = 3;
}

pub fn apply_avoid(s: &mut Sem, mask: u32) -> u64 {
    let mut n = 0;
    if mask & avoid::EXC_END_AT_CODE_END != 0 {
        for m in &mut s.methods {
            if let Some(c) = &mut m.code {
                let len = c.insns.len();
                let before = c.exceptions.len();
                for e in &mut c.exceptions {
                    if e.end == len && e.start + 1 < len {
                        e.end = len - 1;
                        n += 1;
                    }
                }
                c.exceptions.retain(|e| e.end != len);
                let dropped = before - c.exceptions.len();
                n += dropped as u64;
                if dropped > 0 {
                    // catch_target type annotations index the exception table
                    let k = c.exceptions.len();
                    let keep = |t: &TypeAnnotation| !matches!(t.target, Target::Catch(i) if i as usize >= k);
                    c.type_annotations.visible.retain(keep);
                    c.type_annotations.invisible.retain(keep);
                }
            }
        }
    }
    if mask & avoid::NEWEST_PREVIEW_MINOR != 0 && s.major == 67 && s.minor == 65535 {
        s.minor = 0;
        n += 1;
    }
    n
}

/// Clears the flag bits JVMS assigns no meaning to ("reserved for future use ... should be ignored by Java Virtual
/// Machine implementations", 4.1, 4.5, 4.6, 4.7.6, 4.7.24, 4.7.25). Used on both sides of the T2 comparison only:
/// a flipped bit can set one, the generator and javac never do, and a reader that ignores it states no wrong fact.
pub fn mask_undefined_flags(s: &mut Sem) {
    s.access &= 0xF631;
    for f in &mut s.fields {
        f.access &= 0x50DF;
    }
    for m in &mut s.methods {
        m.access &= 0x1DFF;
        for p in m.method_parameters.iter_mut().flatten() {
            p.access &= 0x9010;
        }
    }
    for ic in s.inner_classes.iter_mut().flatten() {
        ic.access &= 0x761F;
    }
    if let Some(m) = &mut s.module {
        m.flags &= 0x9020;
        for r in &mut m.requires {
            r.flags &= 0x9060;
        }
        for e in m.exports.iter_mut().chain(m.opens.iter_mut()) {
            e.flags &= 0x9000;
        }
    }
}

/// Workload twist: gives some of the class's unknown attributes a *predefined* name at a location where JVMS does not
/// define that attribute (`Code` on a field, `ConstantValue` on a class, `Deprecated` inside `Code` ...). There it
/// is an unrecognised attribute like any other and must come back byte for byte, attached to the same member.
/// `pick(n)` draws uniformly from 0..n.
pub fn misplace_names(s: &mut Sem, pick: &mut dyn FnMut(u64) -> u64) -> u64 {
    const ON_CLASS: &[&str] = &["Code", "ConstantValue", "Exceptions", "LineNumberTable", "LocalVariableTable", "StackMapTable", "AnnotationDefault", "MethodParameters"];
    const ON_FIELD: &[&str] = &["Code", "SourceFile", "Exceptions", "LineNumberTable", "InnerClasses", "Record", "StackMapTable", "MethodParameters", "BootstrapMethods"];
    const ON_METHOD: &[&str] = &["ConstantValue", "SourceFile", "InnerClasses", "LineNumberTable", "StackMapTable", "Module", "NestHost", "LocalVariableTable"];
    const IN_CODE: &[&str] = &["Code", "ConstantValue", "Signature", "Exceptions", "Deprecated", "Synthetic", "SourceFile", "RuntimeVisibleAnnotations"];
    const ON_COMPONENT: &[&str] = &["Deprecated", "Synthetic", "ConstantValue", "Code"];
    let mut n = 0;
    let mut go = |v: &mut Vec<UnknownAttr>, names: &[&str], pick: &mut dyn FnMut(u64) -> u64| {
        for a in v.iter_mut() {
            if pick(2) == 0 {
                a.name = JStr::from_str(names[pick(names.len() as u64) as usize]);
                n += 1;
            }
        }
    };
    go(&mut s.unknown, ON_CLASS, pick);
    for f in &mut s.fields {
        go(&mut f.unknown, ON_FIELD, pick);
    }
    for m in &mut s.methods {
        go(&mut m.unknown, ON_METHOD, pick);
        if let Some(c) = &mut m.code {
            go(&mut c.unknown, IN_CODE, pick);
        }
    }
    for rc in s.record.iter_mut().flatten() {
        go(&mut rc.unknown, ON_COMPONENT, pick);
    }
    n
}
