//! Reference model of mapping sets ("refmap"): a mapping set is namespaces + ordered maps
//! class -> (names, comment, fields, methods -> parameters). Equality ignores insertion order.
//! Readers/writers here are written from the format descriptions (module docs, fixtures), not from the code.

use crate::rng::{Digest, Rng};
use serde::{Deserialize, Serialize};
use std::collections::BTreeMap;

pub type Names = Vec<Option<String>>;

#[derive(Clone, Debug, PartialEq, Eq, Serialize, Deserialize, Default)]
pub struct MapSet {
    pub ns: Vec<String>,
    pub doc: Option<String>,
    /// key: name in the first namespace
    pub classes: BTreeMap<String, ClassM>,
}
#[derive(Clone, Debug, PartialEq, Eq, Serialize, Deserialize, Default)]
pub struct ClassM {
    /// names in namespaces 1.. (namespace 0 is the key)
    pub names: Names,
    pub doc: Option<String>,
    /// key: "name<TAB>desc" in the first namespace (a TAB can occur in neither part: both text formats split fields at it)
    pub fields: BTreeMap<String, MemberM>,
    pub methods: BTreeMap<String, MemberM>,
}
#[derive(Clone, Debug, PartialEq, Eq, Serialize, Deserialize, Default)]
pub struct MemberM {
    pub names: Names,
    pub doc: Option<String>,
    /// parameters (methods only); key: index. Parameter names cover ALL namespaces (a parameter may lack a source name)
    pub params: BTreeMap<usize, ParamM>,
}
#[derive(Clone, Debug, PartialEq, Eq, Serialize, Deserialize, Default)]
pub struct ParamM {
    pub names: Names,
    pub doc: Option<String>,
}

impl MapSet {
    /// the first entry or comment of `self` that `o` does not carry identically; None: `o` says everything `self` says
    pub fn missing_in(&self, o: &MapSet) -> Option<String> {
        for (k, c) in &self.classes {
            let Some(d) = o.classes.get(k) else { return Some(format!("class {k}")) };
            if c.names != d.names || (c.doc.is_some() && c.doc != d.doc) {
                return Some(format!("class {k} (names or comment)"));
            }
            for (what, x, y) in [("field", &c.fields, &d.fields), ("method", &c.methods, &d.methods)] {
                for (mk, m) in x {
                    let Some(n) = y.get(mk) else { return Some(format!("class {k} {what} {mk:?}")) };
                    if m.names != n.names || (m.doc.is_some() && m.doc != n.doc) {
                        return Some(format!("class {k} {what} {mk:?} (names or comment)"));
                    }
                    for (pi, pp) in &m.params {
                        let Some(q) = n.params.get(pi) else { return Some(format!("class {k} {what} {mk:?} parameter {pi}")) };
                        if pp.names != q.names || (pp.doc.is_some() && pp.doc != q.doc) {
                            return Some(format!("class {k} {what} {mk:?} parameter {pi} (names or comment)"));
                        }
                    }
                }
            }
        }
        None
    }
}

pub fn mkey(name: &str, desc: &str) -> String {
    format!("{name}\t{desc}")
}
pub fn split_mkey(k: &str) -> (&str, &str) {
    k.split_once('\t').expect("member key")
}

impl MapSet {
    pub fn count(&self) -> usize {
        self.classes.values().map(|c| 1 + c.fields.len() + c.methods.values().map(|m| 1 + m.params.len()).sum::<usize>()).sum()
    }
    pub fn shape(&self) -> u64 {
        let mut d = Digest::new();
        d.u64(self.ns.len() as u64);
        for (k, c) in &self.classes {
            d.u64(k.matches('$').count() as u64);
            d.u64(c.fields.len() as u64);
            d.u64(c.doc.is_some() as u64);
            for m in c.methods.values() {
                d.u64(m.params.len() as u64);
                d.u64(m.doc.as_ref().map_or(0, |x| 1 + x.matches('\n').count() as u64));
            }
        }
        d.0
    }
    /// First differing path between two sets, None if equal.
    pub fn diff_path(&self, o: &MapSet) -> Option<(String, String)> {
        if self.ns != o.ns {
            return Some(("namespaces".into(), format!("{:?} vs {:?}", self.ns, o.ns)));
        }
        if self.doc != o.doc {
            return Some(("comment".into(), format!("{:?} vs {:?}", self.doc, o.doc)));
        }
        for (k, c) in &self.classes {
            let Some(oc) = o.classes.get(k) else { return Some(("class[?]".into(), format!("class {k:?} missing on the right"))) };
            if c.names != oc.names {
                return Some(("class[?].names".into(), format!("class {k:?}: {:?} vs {:?}", c.names, oc.names)));
            }
            if c.doc != oc.doc {
                return Some(("class[?].comment".into(), format!("class {k:?}: {:?} vs {:?}", c.doc, oc.doc)));
            }
            for (what, a, b) in [("field", &c.fields, &oc.fields), ("method", &c.methods, &oc.methods)] {
                for (mk, m) in a {
                    let Some(om) = b.get(mk) else { return Some((format!("class[?].{what}[?]"), format!("{k:?}.{mk:?} missing on the right"))) };
                    if m.names != om.names {
                        return Some((format!("class[?].{what}[?].names"), format!("{k:?}.{mk:?}: {:?} vs {:?}", m.names, om.names)));
                    }
                    if m.doc != om.doc {
                        return Some((format!("class[?].{what}[?].comment"), format!("{k:?}.{mk:?}: {:?} vs {:?}", m.doc, om.doc)));
                    }
                    for (pi, p) in &m.params {
                        let Some(op) = om.params.get(pi) else { return Some((format!("class[?].{what}[?].param[?]"), format!("{k:?}.{mk:?}.{pi} missing on the right"))) };
                        if p.names != op.names {
                            return Some((format!("class[?].{what}[?].param[?].names"), format!("{k:?}.{mk:?}.{pi}: {:?} vs {:?}", p.names, op.names)));
                        }
                        if p.doc != op.doc {
                            return Some((format!("class[?].{what}[?].param[?].comment"), format!("{k:?}.{mk:?}.{pi}: {:?} vs {:?}", p.doc, op.doc)));
                        }
                    }
                    for pi in om.params.keys() {
                        if !m.params.contains_key(pi) {
                            return Some((format!("class[?].{what}[?].param[?]"), format!("{k:?}.{mk:?}.{pi} extra on the right")));
                        }
                    }
                }
                for mk in b.keys() {
                    if !a.contains_key(mk) {
                        return Some((format!("class[?].{what}[?]"), format!("{k:?}.{mk:?} extra on the right")));
                    }
                }
            }
        }
        for k in o.classes.keys() {
            if !self.classes.contains_key(k) {
                return Some(("class[?]".into(), format!("class {k:?} extra on the right")));
            }
        }
        None
    }
}

// ------------------------------------------------------------------------------------------------
// generation

#[derive(Clone, Debug)]
pub struct GenCfg {
    pub nns: usize,
    pub max_classes: usize,
    pub max_members: usize,
    pub unicode: bool,
    pub comments: bool,
    /// allow None in non-source namespaces
    pub missing: bool,
    /// inner classes `A$B`
    pub inner: bool,
    /// Enigma proviso: nested target names follow the nesting, constructors unnamed, parameters have a target name,
    /// no name contains Java whitespace, no comment line starts/ends in a way Enigma cannot carry
    pub enigma: bool,
    /// pad comments so that the text crosses BufWriter's 8 KiB
    pub big: bool,
}

const SIMPLE: [&str; 16] = ["a", "b", "A", "Foo", "bar", "x1", "C_12", "f_3", "m_77", "Outer", "Inner", "net", "Z", "q", "value", "is"];
const UNI: [&str; 8] = ["ä", "名前", "Ω", "é1", "𝔘", "ñu", "ж", "a\u{300}"];
const PRIMS: [&str; 8] = ["I", "J", "Z", "B", "C", "S", "F", "D"];

pub fn gen_ident(r: &mut Rng, unicode: bool) -> String {
    let mut s = if unicode && r.chance(20) { r.pick(&UNI).to_string() } else { r.pick(&SIMPLE).to_string() };
    if r.chance(40) {
        s.push_str(&r.below(100).to_string());
    }
    if r.chance(10) {
        s.push('_');
        s.push_str(*r.pick(&SIMPLE));
    }
    s
}

pub fn gen_class_name(r: &mut Rng, unicode: bool) -> String {
    let mut parts = vec![];
    for _ in 0..r.below(4) {
        parts.push(gen_ident(r, unicode).to_lowercase());
    }
    parts.push(gen_ident(r, unicode));
    parts.join("/")
}

pub fn gen_field_desc(r: &mut Rng, classes: &[String]) -> String {
    let mut s = String::new();
    if r.chance(20) {
        for _ in 0..r.range(1, 3) {
            s.push('[');
        }
    }
    if r.chance(50) || classes.is_empty() {
        if r.chance(30) {
            s.push_str("Ljava/lang/Object;");
        } else {
            s.push_str(*r.pick(&PRIMS));
        }
    } else {
        s.push('L');
        s.push_str(r.pick(classes).as_str());
        s.push(';');
    }
    s
}

pub fn gen_method_desc(r: &mut Rng, classes: &[String]) -> (String, usize) {
    let n = r.below(4) as usize;
    let mut s = String::from("(");
    for _ in 0..n {
        s.push_str(&gen_field_desc(r, classes));
    }
    s.push(')');
    if r.chance(30) {
        s.push('V');
    } else {
        s.push_str(&gen_field_desc(r, classes));
    }
    (s, n)
}

pub fn gen_comment(r: &mut Rng, cfg: &GenCfg) -> String {
    // backslashes: Tiny v2 escapes only the line break (as backslash-n); every other backslash is literal text
    // (the two characters backslash-n themselves are excluded, DESIGN appendix C)
    const WORDS: [&str; 18] = ["the", "value", "of", "this", "#hash", "is", "@see", "{@link Foo#bar}", "<p>", "  indented", "x=y", "naïve", "C:\\temp\\readme.txt", "\\\\server\\share", "/\\", "a\\0b", "tab\\there", "ends\\"];
    let lines = if r.chance(40) { r.range(2, 4) } else { 1 };
    let mut out = vec![];
    for li in 0..lines {
        let mut l = String::new();
        if r.chance(15) && li > 0 && li + 1 < lines {
            // blank line in the middle
        } else {
            for w in 0..r.range(1, 5) {
                if w > 0 {
                    l.push(' ');
                }
                let word = *r.pick(&WORDS);
                l.push_str(if cfg.unicode || word.is_ascii() { word } else { "naive" });
            }
        }
        if cfg.enigma {
            // Enigma carries a comment line as whitespace-separated fields re-joined by single spaces:
            // it cannot express leading/trailing blanks of the *first field* split differently; keep what it can express
            l = l.trim_end().to_string();
        }
        out.push(l);
    }
    if cfg.big && r.chance(30) {
        out.push("pad ".repeat(r.range(100, 2500) as usize).trim_end().to_string());
    }
    let mut s = out.join("\n");
    if s.is_empty() {
        s = "c".into();
    }
    // a comment may begin or end with a line break (an empty first / last line)
    if r.chance(10) {
        s.push('\n');
    }
    if r.chance(5) {
        s.insert(0, '\n');
    }
    s
}

fn gen_names(r: &mut Rng, n: usize, cfg: &GenCfg, mut f: impl FnMut(&mut Rng) -> String) -> Names {
    (0..n).map(|_| if cfg.missing && r.chance(25) { None } else { Some(f(r)) }).collect()
}

pub fn gen_mapset(r: &mut Rng, cfg: &GenCfg) -> MapSet {
    let nns = cfg.nns;
    let mut ns: Vec<String> = vec!["official".into(), "intermediary".into(), "named".into(), "extra".into()];
    if r.chance(30) {
        ns = vec!["a".into(), "b".into(), "c".into(), "d".into()];
    }
    ns.truncate(nns);
    let mut m = MapSet { ns, doc: None, classes: BTreeMap::new() };
    let nclasses = r.range(if cfg.max_classes > 0 { 1 } else { 0 }, cfg.max_classes as u64) as usize;
    let mut keys: Vec<String> = vec![];
    for _ in 0..nclasses {
        let k = if cfg.inner && !keys.is_empty() && r.chance(35) {
            // nested under an existing class (present), or under an absent outer class
            let outer = if r.chance(80) { r.pick(&keys).clone() } else { gen_class_name(r, cfg.unicode) };
            let simple = if r.chance(30) { r.range(1, 9).to_string() } else { gen_ident(r, cfg.unicode) };
            if r.chance(12) {
                // the direct outer class is absent although a class further out may be present (an orphan at depth >= 2)
                format!("{outer}${}${simple}", gen_ident(r, cfg.unicode))
            } else {
                format!("{outer}${simple}")
            }
        } else {
            gen_class_name(r, cfg.unicode)
        };
        if !keys.contains(&k) {
            keys.push(k);
        }
    }
    keys.sort();
    // classes are created in sorted order so that an outer class (a strict prefix) exists before its inner classes
    for k in &keys {
        let names: Names = if cfg.enigma {
            // target name follows the nesting: <target of outer or outer src>$<simple>
            // inner classes in different outer classes often share their simple target name (Builder, Entry ...): a
            // look-up keyed by the simple name alone confuses them (missed seeded change C05-9)
            let simple_t = if r.chance(75) { Some(if k.contains('$') && r.chance(40) { r.pick(&["Builder", "Entry", "Itr", "Node"]).to_string() } else { gen_ident(r, cfg.unicode) }) } else { None };
            match k.rsplit_once('$') {
                Some((outer, _simple)) => {
                    let outer_t = m.classes.get(outer).map(|oc: &ClassM| oc.names[0].clone().unwrap_or_else(|| outer.to_string()));
                    match (outer_t, simple_t) {
                        (Some(ot), Some(st)) => vec![Some(format!("{ot}${st}"))],
                        (Some(_), None) => vec![None],
                        // outer class absent from the set: an orphan inner class is its own file; any target name
                        (None, Some(st)) => vec![Some(if r.chance(50) { format!("{}${st}", gen_class_name(r, cfg.unicode)) } else { gen_class_name(r, cfg.unicode) })],
                        (None, None) => vec![None],
                    }
                }
                None => vec![simple_t.map(|_| gen_class_name(r, cfg.unicode))],
            }
        } else {
            gen_names(r, nns - 1, cfg, |r| if r.chance(20) { format!("{}${}", gen_class_name(r, cfg.unicode), gen_ident(r, cfg.unicode)) } else { gen_class_name(r, cfg.unicode) })
        };
        let mut c = ClassM { names, doc: None, fields: BTreeMap::new(), methods: BTreeMap::new() };
        if cfg.comments && r.chance(30) {
            c.doc = Some(gen_comment(r, cfg));
        }
        for _ in 0..r.below(cfg.max_members as u64 + 1) {
            let name = gen_ident(r, cfg.unicode);
            let desc = gen_field_desc(r, &keys);
            let mut f = MemberM { names: gen_names(r, nns - 1, cfg, |r| gen_ident(r, cfg.unicode)), doc: None, params: BTreeMap::new() };
            if cfg.comments && r.chance(25) {
                f.doc = Some(gen_comment(r, cfg));
            }
            c.fields.insert(mkey(&name, &desc), f);
        }
        for _ in 0..r.below(cfg.max_members as u64 + 1) {
            let ctor = r.chance(15);
            let name = if ctor { "<init>".to_string() } else { gen_ident(r, cfg.unicode) };
            let (desc, nparams) = gen_method_desc(r, &keys);
            let names = if ctor {
                if cfg.enigma {
                    // constructors are treated as unnamed
                    vec![None; nns - 1]
                } else {
                    gen_names(r, nns - 1, cfg, |_| "<init>".to_string())
                }
            } else {
                gen_names(r, nns - 1, cfg, |r| gen_ident(r, cfg.unicode))
            };
            let mut me = MemberM { names, doc: None, params: BTreeMap::new() };
            if cfg.comments && r.chance(25) {
                me.doc = Some(gen_comment(r, cfg));
            }
            for pi in 0..nparams + 1 {
                if r.chance(40) {
                    let idx = if r.chance(85) { pi } else { r.below(300) as usize };
                    let names: Names = if cfg.enigma {
                        vec![None, Some(gen_ident(r, cfg.unicode))]
                    } else {
                        // parameters usually have no source name
                        let mut n: Names = vec![if r.chance(20) { Some(gen_ident(r, cfg.unicode)) } else { None }];
                        n.extend(gen_names(r, nns - 1, cfg, |r| gen_ident(r, cfg.unicode)));
                        n
                    };
                    let mut p = ParamM { names, doc: None };
                    if cfg.comments && r.chance(20) {
                        p.doc = Some(gen_comment(r, cfg));
                    }
                    me.params.insert(idx, p);
                }
            }
            c.methods.insert(mkey(&name, &desc), me);
        }
        m.classes.insert(k.clone(), c);
    }
    m
}

// ------------------------------------------------------------------------------------------------
// Tiny v2: reference writer and reader

pub fn esc(s: &str) -> String {
    s.replace('\n', "\\n")
}

fn push_names(out: &mut String, first: Option<&str>, rest: &Names) {
    if let Some(f) = first {
        out.push('\t');
        out.push_str(f);
    }
    for n in rest {
        out.push('\t');
        if let Some(n) = n {
            out.push_str(n);
        }
    }
    out.push('\n');
}

/// Writes the set as Tiny v2. `order`: None = sorted by key; Some(rng) = entries in a drawn order
/// (any order of sections is a legal Tiny v2 text).
pub fn write_tiny(m: &MapSet, order: Option<&mut Rng>) -> String {
    let mut dummy = Rng::new(0);
    let shuffle = order.is_some();
    let r = order.unwrap_or(&mut dummy);
    let mut out = String::from("tiny\t2\t0");
    for n in &m.ns {
        out.push('\t');
        out.push_str(n);
    }
    out.push('\n');
    let mut cls: Vec<_> = m.classes.iter().collect();
    if shuffle {
        r.shuffle(&mut cls);
    }
    for (k, c) in cls {
        out.push('c');
        push_names(&mut out, Some(k), &c.names);
        // sub-sections of a class in a drawn order: comment, fields, methods
        let mut sections: Vec<(u8, &String, &MemberM)> = vec![];
        for (fk, f) in &c.fields {
            sections.push((0, fk, f));
        }
        for (mk, me) in &c.methods {
            sections.push((1, mk, me));
        }
        if shuffle {
            r.shuffle(&mut sections);
        }
        let doc_pos = if shuffle { r.usize(sections.len() + 1) } else { 0 };
        for i in 0..=sections.len() {
            if i == doc_pos {
                if let Some(d) = &c.doc {
                    out.push_str("\tc\t");
                    out.push_str(&esc(d));
                    out.push('\n');
                }
            }
            if i == sections.len() {
                break;
            }
            let (kind, key, me) = sections[i];
            let (name, desc) = split_mkey(key);
            out.push_str(if kind == 0 { "\tf\t" } else { "\tm\t" });
            out.push_str(desc);
            push_names(&mut out, Some(name), &me.names);
            let mut ps: Vec<_> = me.params.iter().collect();
            if shuffle {
                r.shuffle(&mut ps);
            }
            let mdoc_first = !shuffle || r.chance(50);
            if mdoc_first {
                if let Some(d) = &me.doc {
                    out.push_str("\t\tc\t");
                    out.push_str(&esc(d));
                    out.push('\n');
                }
            }
            for (pi, p) in ps {
                out.push_str("\t\tp\t");
                out.push_str(&pi.to_string());
                push_names(&mut out, None, &p.names);
                if let Some(d) = &p.doc {
                    out.push_str("\t\t\tc\t");
                    out.push_str(&esc(d));
                    out.push('\n');
                }
            }
            if !mdoc_first {
                if let Some(d) = &me.doc {
                    out.push_str("\t\tc\t");
                    out.push_str(&esc(d));
                    out.push('\n');
                }
            }
        }
    }
    out
}

// name validity per JVMS 4.2 (written from the specification)
pub fn valid_unqualified(s: &str) -> bool {
    !s.is_empty() && !s.chars().any(|c| matches!(c, '.' | ';' | '[' | '/'))
}
pub fn valid_method_name(s: &str) -> bool {
    s == "<init>" || s == "<clinit>" || (valid_unqualified(s) && !s.chars().any(|c| matches!(c, '<' | '>')))
}
pub fn valid_obj_class_name(s: &str) -> bool {
    !s.starts_with('[') && s.split('/').all(valid_unqualified)
}

/// Prefix of the error for input that is not UTF-8 text at all. Unlike other reference errors this one is not a
/// matter of reader tolerance: a reader that answers Ok on such input has dropped or invented data.
pub const UNDECODABLE: &str = "undecodable input (not UTF-8)";

/// Splits text the way a line-oriented reader over `BufRead::lines` does: at '\n', a preceding '\r' dropped,
/// a final unterminated line counts. Invalid UTF-8 is an error.
pub fn split_lines(bytes: &[u8]) -> Result<Vec<&str>, String> {
    let s = std::str::from_utf8(bytes).map_err(|e| format!("{UNDECODABLE}: {e}"))?;
    let mut v = vec![];
    let mut rest = s;
    while !rest.is_empty() {
        match rest.find('\n') {
            Some(i) => {
                let l = &rest[..i];
                v.push(l.strip_suffix('\r').unwrap_or(l));
                rest = &rest[i + 1..];
            }
            None => {
                v.push(rest);
                break;
            }
        }
    }
    Ok(v)
}

struct TLine<'a> {
    no: usize,
    indent: usize,
    fields: Vec<&'a str>,
}

fn tiny_lines(bytes: &[u8]) -> Result<Vec<TLine<'_>>, String> {
    Ok(split_lines(bytes)?
        .into_iter()
        .enumerate()
        .map(|(i, l)| {
            let indent = l.bytes().take_while(|b| *b == b'\t').count();
            TLine { no: i + 1, indent, fields: l[indent..].split('\t').collect() }
        })
        .collect())
}

fn opt(s: &str) -> Option<String> {
    if s.is_empty() {
        None
    } else {
        Some(s.to_string())
    }
}

/// Strict reference reader for Tiny v2 with `n` namespaces.
pub fn read_tiny(bytes: &[u8], n: usize) -> Result<MapSet, String> {
    let lines = tiny_lines(bytes)?;
    let mut it = lines.iter().peekable();
    let h = it.next().ok_or("no header")?;
    if h.indent != 0 || h.fields.len() != 3 + n || h.fields[0] != "tiny" || h.fields[1] != "2" || h.fields[2] != "0" {
        return Err(format!("bad header in line {}", h.no));
    }
    let ns: Vec<String> = h.fields[3..].iter().map(|s| s.to_string()).collect();
    if ns.iter().any(|x| x.is_empty()) {
        return Err("empty namespace name".into());
    }
    let mut m = MapSet { ns, doc: None, classes: BTreeMap::new() };
    fn names(l: &TLine, from: usize, n: usize, valid: fn(&str) -> bool) -> Result<Names, String> {
        if l.fields.len() != from + n {
            return Err(format!("line {}: expected {} names", l.no, n));
        }
        l.fields[from..]
            .iter()
            .map(|s| if s.is_empty() || valid(s) { Ok(opt(s)) } else { Err(format!("line {}: invalid name {s:?}", l.no)) })
            .collect()
    }
    fn comment(l: &TLine, slot: &mut Option<String>) -> Result<(), String> {
        if l.fields.len() != 2 {
            return Err(format!("line {}: comment with {} fields", l.no, l.fields.len()));
        }
        if slot.is_some() {
            return Err(format!("line {}: second comment", l.no));
        }
        *slot = Some(l.fields[1].replace("\\n", "\n"));
        Ok(())
    }
    while let Some(l) = it.next() {
        if l.indent != 0 {
            return Err(format!("line {}: indentation", l.no));
        }
        if l.fields[0] != "c" {
            continue; // unknown section: skipped (its children, if any, are an indentation error)
        }
        let nm = names(l, 1, n, valid_obj_class_name)?;
        let key = nm[0].clone().ok_or(format!("line {}: class without source name", l.no))?;
        let mut c = ClassM { names: nm[1..].to_vec(), ..Default::default() };
        while let Some(l) = it.peek().filter(|l| l.indent >= 1) {
            let l = *l;
            it.next();
            if l.indent != 1 {
                return Err(format!("line {}: indentation", l.no));
            }
            match l.fields[0] {
                "c" => comment(l, &mut c.doc)?,
                "f" | "m" => {
                    let is_f = l.fields[0] == "f";
                    if l.fields.len() < 2 {
                        return Err(format!("line {}: short", l.no));
                    }
                    let desc = l.fields[1];
                    let nm = names(l, 2, n, if is_f { valid_unqualified } else { valid_method_name })?;
                    let name = nm[0].clone().ok_or(format!("line {}: member without source name", l.no))?;
                    let mut me = MemberM { names: nm[1..].to_vec(), ..Default::default() };
                    while let Some(l) = it.peek().filter(|l| l.indent >= 2) {
                        let l = *l;
                        it.next();
                        if l.indent != 2 {
                            return Err(format!("line {}: indentation", l.no));
                        }
                        match l.fields[0] {
                            "c" => comment(l, &mut me.doc)?,
                            "p" if !is_f => {
                                if l.fields.len() < 2 {
                                    return Err(format!("line {}: short", l.no));
                                }
                                let idx: usize = l.fields[1].parse().map_err(|_| format!("line {}: bad index", l.no))?;
                                // `usize::from_str` accepts a leading '+'; the documented format is decimal digits
                                let mut p = ParamM { names: names(l, 2, n, valid_unqualified)?, doc: None };
                                while let Some(l) = it.peek().filter(|l| l.indent >= 3) {
                                    let l = *l;
                                    it.next();
                                    if l.indent != 3 {
                                        return Err(format!("line {}: indentation", l.no));
                                    }
                                    if l.fields[0] == "c" {
                                        comment(l, &mut p.doc)?;
                                    }
                                }
                                if me.params.insert(idx, p).is_some() {
                                    return Err(format!("line {}: duplicate parameter", l.no));
                                }
                            }
                            _ => {} // unknown sub-section: skipped
                        }
                    }
                    let map = if is_f { &mut c.fields } else { &mut c.methods };
                    if map.insert(mkey(&name, desc), me).is_some() {
                        return Err(format!("line {}: duplicate member", l.no));
                    }
                }
                _ => {} // unknown sub-section: skipped
            }
        }
        if m.classes.insert(key, c).is_some() {
            return Err(format!("line {}: duplicate class", l.no));
        }
    }
    Ok(m)
}

// ------------------------------------------------------------------------------------------------
// Enigma: reference writer and reader (two namespaces)

/// The top-level nodes of the Enigma layout: classes whose outer class (source name up to the last `$`) is not
/// in the set. Returns (file name = target name or, lacking one, source name; source key).
pub fn enigma_roots(m: &MapSet) -> Vec<(String, String)> {
    let mut v = vec![];
    for (k, c) in &m.classes {
        let has_parent = inner_split(k).is_some_and(|(outer, _)| m.classes.contains_key(outer));
        if !has_parent {
            v.push((c.names[0].clone().unwrap_or_else(|| k.clone()), k.clone()));
        }
    }
    v.sort();
    v
}

/// Splits `a/b/Outer$Inner` into (`a/b/Outer`, `Inner`): the `$` must lie in the last `/`-section, with
/// non-empty text on both sides.
pub fn inner_split(k: &str) -> Option<(&str, &str)> {
    let (outer, inner) = k.rsplit_once('$')?;
    if outer.is_empty() || inner.is_empty() || outer.ends_with('/') || inner.contains('/') {
        return None;
    }
    Some((outer, inner))
}

fn enigma_class(m: &MapSet, key: &str, depth: usize, out: &mut String) {
    let c = &m.classes[key];
    let ind = "\t".repeat(depth);
    // a nested class is written with its simple names; a root with its full names
    let (src, dst): (String, Option<String>) = if depth == 0 {
        (key.to_string(), c.names[0].clone())
    } else {
        (inner_split(key).unwrap().1.to_string(), c.names[0].as_ref().map(|d| inner_split(d).map_or(d.clone(), |x| x.1.to_string())))
    };
    out.push_str(&format!("{ind}CLASS {src}"));
    if let Some(d) = dst {
        out.push(' ');
        out.push_str(&d);
    }
    out.push('\n');
    let doc = |out: &mut String, d: &Option<String>, ind: &str| {
        if let Some(d) = d {
            for l in d.split('\n') {
                out.push_str(&format!("{ind}COMMENT {l}\n"));
            }
        }
    };
    doc(out, &c.doc, &format!("{ind}\t"));
    for (fk, f) in &c.fields {
        let (name, desc) = split_mkey(fk);
        out.push_str(&format!("{ind}\tFIELD {name}"));
        if let Some(d) = &f.names[0] {
            out.push(' ');
            out.push_str(d);
        }
        out.push_str(&format!(" {desc}\n"));
        doc(out, &f.doc, &format!("{ind}\t\t"));
    }
    for (mk, me) in &c.methods {
        let (name, desc) = split_mkey(mk);
        out.push_str(&format!("{ind}\tMETHOD {name}"));
        if let Some(d) = &me.names[0] {
            out.push(' ');
            out.push_str(d);
        }
        out.push_str(&format!(" {desc}\n"));
        doc(out, &me.doc, &format!("{ind}\t\t"));
        for (pi, p) in &me.params {
            out.push_str(&format!("{ind}\t\tARG {pi} {}\n", p.names[1].as_deref().unwrap_or("?")));
            doc(out, &p.doc, &format!("{ind}\t\t\t"));
        }
    }
    let prefix = format!("{key}$");
    for k in m.classes.keys() {
        if let Some((outer, _)) = inner_split(k) {
            if outer == key && k.starts_with(&prefix) {
                enigma_class(m, k, depth + 1, out);
            }
        }
    }
}

/// One Enigma text per root: (file name without extension, text).
pub fn write_enigma_files(m: &MapSet) -> Vec<(String, String)> {
    enigma_roots(m)
        .into_iter()
        .map(|(file, key)| {
            let mut s = String::new();
            enigma_class(m, &key, 0, &mut s);
            (file, s)
        })
        .collect()
}

struct ELine {
    no: usize,
    indent: usize,
    tag: String,
    args: Vec<String>,
}

fn enigma_lines(bytes: &[u8]) -> Result<Vec<ELine>, String> {
    const WS: [char; 6] = [' ', '\t', '\n', '\x0b', '\x0c', '\r'];
    let mut v = vec![];
    for (i, l) in split_lines(bytes)?.into_iter().enumerate() {
        let indent = l.bytes().take_while(|b| *b == b'\t').count();
        let l = &l[indent..];
        let l = if l.starts_with("COMMENT") { l } else { l.split_once('#').map_or(l, |x| x.0).trim() };
        if l.is_empty() {
            continue;
        }
        let mut f = l.split(WS).map(|s| s.to_string());
        let tag = f.next().unwrap();
        v.push(ELine { no: i + 1, indent, tag, args: f.collect() });
    }
    Ok(v)
}

fn is_acc(s: &str) -> bool {
    s.starts_with("ACC:")
}

/// Strict reference reader of one Enigma text, appending into `m` (two namespaces).
pub fn read_enigma_into(bytes: &[u8], m: &mut MapSet) -> Result<(), String> {
    let lines = enigma_lines(bytes)?;
    let mut it = lines.iter().peekable();
    fn comment(l: &ELine, slot: &mut Option<String>) {
        let s = l.args.join(" ");
        match slot {
            Some(d) => {
                d.push('\n');
                d.push_str(&s);
            }
            None => *slot = Some(s),
        }
    }
    fn member_args(l: &ELine) -> Result<(String, Option<String>, String), String> {
        match l.args.as_slice() {
            [s, d] => Ok((s.clone(), None, d.clone())),
            [s, d, a] if is_acc(a) => Ok((s.clone(), None, d.clone())),
            [s, t, d] => Ok((s.clone(), Some(t.clone()), d.clone())),
            [s, t, d, _a] => Ok((s.clone(), Some(t.clone()), d.clone())),
            _ => Err(format!("line {}: wrong number of arguments", l.no)),
        }
    }
    fn class<'a>(it: &mut std::iter::Peekable<std::slice::Iter<'a, ELine>>, l: &ELine, depth: usize, parent: Option<(&str, &str)>, m: &mut MapSet) -> Result<(), String> {
        let (src, dst) = match l.args.as_slice() {
            [s] => (s.clone(), None),
            [s, a] if is_acc(a) => (s.clone(), None),
            [s, d] => (s.clone(), Some(d.clone())),
            [s, d, _a] => (s.clone(), Some(d.clone())),
            _ => return Err(format!("line {}: wrong number of arguments", l.no)),
        };
        let (src, dst) = match parent {
            Some((ps, pd)) => (format!("{ps}${src}"), dst.map(|d| format!("{pd}${d}"))),
            None => (src, dst),
        };
        if !valid_obj_class_name(&src) || dst.as_deref().is_some_and(|d| !valid_obj_class_name(d)) {
            return Err(format!("line {}: invalid class name", l.no));
        }
        let pdst = dst.clone().unwrap_or_else(|| src.clone());
        let mut c = ClassM { names: vec![dst], ..Default::default() };
        while let Some(l) = it.peek().filter(|l| l.indent > depth) {
            let l = *l;
            it.next();
            if l.indent != depth + 1 {
                return Err(format!("line {}: indentation", l.no));
            }
            match l.tag.as_str() {
                "CLASS" => class(it, l, depth + 1, Some((&src, &pdst)), m)?,
                "COMMENT" => comment(l, &mut c.doc),
                "FIELD" | "METHOD" => {
                    let is_f = l.tag == "FIELD";
                    let (s, t, d) = member_args(l)?;
                    let valid: fn(&str) -> bool = if is_f { valid_unqualified } else { valid_method_name };
                    if !valid(&s) || t.as_deref().is_some_and(|t| !valid(t)) {
                        return Err(format!("line {}: invalid member name", l.no));
                    }
                    let mut me = MemberM { names: vec![t], ..Default::default() };
                    while let Some(l) = it.peek().filter(|l| l.indent > depth + 1) {
                        let l = *l;
                        it.next();
                        if l.indent != depth + 2 {
                            return Err(format!("line {}: indentation", l.no));
                        }
                        match l.tag.as_str() {
                            "COMMENT" => comment(l, &mut me.doc),
                            "ARG" if !is_f => {
                                let [idx, dst] = l.args.as_slice() else { return Err(format!("line {}: wrong number of arguments", l.no)) };
                                let idx: usize = idx.parse().map_err(|_| format!("line {}: bad index", l.no))?;
                                if !valid_unqualified(dst) {
                                    return Err(format!("line {}: invalid parameter name", l.no));
                                }
                                let mut p = ParamM { names: vec![None, Some(dst.clone())], doc: None };
                                while let Some(l) = it.peek().filter(|l| l.indent > depth + 2) {
                                    let l = *l;
                                    it.next();
                                    if l.indent != depth + 3 || l.tag != "COMMENT" {
                                        return Err(format!("line {}: expected COMMENT", l.no));
                                    }
                                    comment(l, &mut p.doc);
                                }
                                if me.params.insert(idx, p).is_some() {
                                    return Err(format!("line {}: duplicate parameter", l.no));
                                }
                            }
                            _ => return Err(format!("line {}: unknown tag in member", l.no)),
                        }
                    }
                    let map = if is_f { &mut c.fields } else { &mut c.methods };
                    if map.insert(mkey(&s, &d), me).is_some() {
                        return Err(format!("line {}: duplicate member", l.no));
                    }
                }
                _ => return Err(format!("line {}: unknown tag in class", l.no)),
            }
        }
        if m.classes.insert(src, c).is_some() {
            return Err(format!("line {}: duplicate class", l.no));
        }
        Ok(())
    }
    while let Some(l) = it.next() {
        if l.indent != 0 || l.tag != "CLASS" {
            return Err(format!("line {}: expected CLASS at top level", l.no));
        }
        class(&mut it, l, 0, None, m)?;
    }
    Ok(())
}
