//! C16 - parsers are total. Fault enumeration over damaged media, observed from sandboxed child processes.
//!
//! The parent (`sim C16`) splits a deterministic list of *units* (one seed input each: a class file, a Tiny v2 /
//! tinydiff / Enigma / nests text, a descriptor string) over child processes (`sim c16-child`). A child
//! enumerates the unit's damaged variants (truncation at every offset, every length/count/index/offset/tag
//! field at boundary values, bit flips, line/token edits, seeded random edits, hand-built self-referential
//! and deeply nested structures) and feeds each to the real parsers. Inside the child a panic is caught and
//! reported; allocation is accounted by `sandbox::LimitAlloc`; the byte source is a `SimReader` with step
//! fuel. What cannot be caught in-process (stack overflow, allocation failure abort, a CPU loop) kills the
//! child; the parent sees the exit status, reads the child's progress marker to learn which case was in
//! flight, records the verdict and restarts a child behind that case.

use crate::engine::{abstract_indices, no_panic, verif_dir, Tier, Violation};
use crate::refmap;
use crate::rng::{fnv, mix, Digest, Rng};
use crate::sandbox;
use crate::simio::{IoPlan, SimReader};
use serde::{Deserialize, Serialize};
use serde_json::{json, Value};
use std::collections::{BTreeMap, BTreeSet, HashSet};
use std::io::{BufRead, Write};
use std::os::unix::fs::FileExt;
use std::os::unix::process::ExitStatusExt;
use std::path::PathBuf;
use std::process::{Command, Stdio};
use std::sync::atomic::{AtomicUsize, Ordering};
use std::sync::Mutex;
use std::time::{Duration, Instant};

pub struct Ns;

#[derive(Clone, Copy, PartialEq, Eq, Debug, Serialize, Deserialize, PartialOrd, Ord)]
#[serde(rename_all = "snake_case")]
pub enum Kind {
    Class,
    Tiny,
    TinyDiff,
    Enigma,
    Nests,
    Desc,
}
impl Kind {
    fn name(self) -> &'static str {
        match self {
            Kind::Class => "class",
            Kind::Tiny => "tiny",
            Kind::TinyDiff => "tinydiff",
            Kind::Enigma => "enigma",
            Kind::Nests => "nests",
            Kind::Desc => "desc",
        }
    }
}

#[derive(Clone, Debug, Serialize, Deserialize, PartialEq)]
#[serde(rename_all = "snake_case")]
pub enum UnitSpec {
    GenClass { seed: u64, size: u8, features: u32 },
    Corpus { idx: usize, reencode: bool },
    Special { name: String, depth: u32 },
    Text { kind: Kind, seed: u64 },
    Desc { seed: u64 },
}

#[derive(Clone, Debug)]
struct Span {
    start: usize,
    len: usize,
    kind: refclass::SpanKind,
    path: String,
}

struct SeedInput {
    kind: Kind,
    bytes: Vec<u8>,
    spans: Vec<Span>,
    nns: usize,
    /// constant-pool indices worth aiming index fields at (Dynamic, InvokeDynamic, MethodHandle, second slots)
    cp_targets: Vec<u16>,
    cp_count: u16,
    is_corpus: bool,
    /// one evaluation costs tens of milliseconds (tens of thousands of nested resolutions): a few dozen mutations only
    slow: bool,
}

#[derive(Clone, Debug, Serialize, Deserialize, PartialEq)]
#[serde(rename_all = "snake_case")]
pub enum Mut {
    None,
    /// the bytes are intact, but from offset `at` on the medium answers every read with an error of `ERR_KINDS[kind]`
    /// (a stream that turns corrupt / a device that stays broken)
    ErrFrom { at: usize, kind: u8 },
    Trunc { at: usize },
    /// big-endian field `span` set to `val` (`what` names the boundary value)
    Set { span: u32, val: u64, what: String },
    Flip { off: usize, bit: u8 },
    /// seeded random multi-byte edit
    Edit { seed: u64 },
    LineDel { line: u32 },
    LineDup { line: u32 },
    LineSwap { line: u32 },
    Indent { line: u32, add: bool },
    Tok { line: u32, tok: u32, repl: u32 },
    /// a multi-byte character inserted at byte offset `at` of line `line` (only at character boundaries)
    CharIns { line: u32, at: u32, ch: u8 },
}

const INS_CHARS: [&str; 3] = ["\u{e9}", "\u{20ac}", "\u{1f600}"];

// ------------------------------------------------------------------------------------------------
// unit list

pub fn units(tier: Tier, seed: u64) -> Vec<UnitSpec> {
    let mut r = Rng::new(mix(&[seed, crate::rng::label("C16-units")]));
    let scale: u64 = match tier {
        Tier::Quick => 1,
        Tier::Thorough => 8,
    };
    let mut u = vec![];
    // hand-built structures first (cheap, and the ones most likely to kill a child)
    for name in ["self-dynamic", "two-cycle-dynamic"] {
        u.push(UnitSpec::Special { name: name.into(), depth: 0 });
    }
    // a 16-level DAG of Dynamic constants, each level naming the next one twice as bootstrap argument (65535 nested
    // resolutions for one load of the head), loaded 1 / 2 / 40 / 400 times by one method: the reader's budget of
    // nested resolutions must hold per class file, not per load (missed seeded change C16-4)
    for d in [1u32, 2, 40, 400] {
        u.push(UnitSpec::Special { name: "dynamic-dag".into(), depth: d });
    }
    // names with an unpaired surrogate (legal modified UTF-8, not printable as UTF-8): error paths that format such a
    // name must not panic (missed seeded change C16-9); depth = which names carry one
    for d in [1u32, 2, 3] {
        u.push(UnitSpec::Special { name: "surrogate-names".into(), depth: d });
    }
    // a method that uses every bytecode offset it can as a label: code_length 65535, one line-number entry per
    // instruction (depth = how many) and a local variable live over the whole code (its end label is offset 65535):
    // 65534 / 65535 / 65536 labels in one method (side remark of the sub-agent that wrote C16-10..12)
    for d in [65_533u32, 65_534, 65_535] {
        u.push(UnitSpec::Special { name: "max-labels".into(), depth: d });
    }
    let depths: &[u32] = match tier {
        Tier::Quick => &[70, 3_000, 60_000],
        Tier::Thorough => &[70, 3_000, 60_000, 400_000],
    };
    for name in ["deep-annotation", "deep-array-value", "deep-field-annotation", "deep-annotation-default", "deep-param-annotation", "deep-type-annotation"] {
        for d in depths {
            u.push(UnitSpec::Special { name: name.into(), depth: *d });
        }
    }
    // descriptor TEXT is not limited to 65535 bytes: 1 000 000 `[` (one stack frame per `[` overflows an 8 MiB stack at
    // this profile's frame sizes, 65 534 do not) - missed seeded change C16-18
    for d in [255u32, 256, 65_534] {
        u.push(UnitSpec::Special { name: "deep-array-descriptor".into(), depth: d });
    }
    for d in [70_000u32, 1_000_000] {
        u.push(UnitSpec::Special { name: "deep-desc-text".into(), depth: d });
    }
    // a CONSTANT_Class naming an array type with 255 / 256 / 257 / 512 dimensions (the dimension count is a u8 somewhere:
    // multiples of 256 wrap to 0) - missed seeded change C16-17
    for d in [255u32, 256, 257, 512] {
        u.push(UnitSpec::Special { name: "array-class-dims".into(), depth: d });
    }
    // an invokeinterface whose descriptor has 127 / 128 / 255 / 256 / 1000 two-slot arguments (the writer derives the
    // count byte from the descriptor)
    for d in [127u32, 128, 255, 256, 1000] {
        u.push(UnitSpec::Special { name: "many-args-invokeinterface".into(), depth: d });
    }
    for d in match tier {
        Tier::Quick => vec![40u32, 600],
        Tier::Thorough => vec![40, 600, 2500],
    } {
        u.push(UnitSpec::Special { name: "deep-enigma".into(), depth: d });
    }
    // generated classes: mostly small, some medium, a few large; feature masks vary (swarm)
    let n_gen = if scale == 1 { 220 } else { 150 * scale };
    for i in 0..n_gen {
        // large classes cost ~100 s of enumeration each: thorough tier only
        let size = match r.below(20) {
            0 if tier == Tier::Thorough => 2,
            0..=5 => 1,
            _ => 0,
        };
        let features = match i % 6 {
            0 => refclass::gen::feat::ALL,
            1 => refclass::gen::feat::ALL & !refclass::gen::feat::UNICODE,
            2 => refclass::gen::feat::CODE | refclass::gen::feat::CONDY | refclass::gen::feat::INDY | refclass::gen::feat::SWITCHES,
            3 => refclass::gen::feat::CODE | refclass::gen::feat::FRAMES | refclass::gen::feat::DEBUG_TABLES | refclass::gen::feat::EXCEPTION_TABLE | refclass::gen::feat::WIDE_LOCALS,
            4 => refclass::gen::feat::ANNOTATIONS | refclass::gen::feat::TYPE_ANNOTATIONS | refclass::gen::feat::CODE | refclass::gen::feat::RECORD | refclass::gen::feat::MODULE,
            _ => r.next() as u32 & refclass::gen::feat::ALL,
        };
        u.push(UnitSpec::GenClass { seed: r.next(), size, features });
    }
    // corpus: every file raw (truncation, flips); a rotating subset re-encoded (offset map -> field mutations)
    let n_corpus = crate::corpus::corpus().len();
    for idx in 0..n_corpus {
        u.push(UnitSpec::Corpus { idx, reencode: false });
    }
    let n_re = (30 * scale as usize).min(n_corpus);
    let start = r.usize(n_corpus);
    for k in 0..n_re {
        u.push(UnitSpec::Corpus { idx: (start + k * 11) % n_corpus, reencode: true });
    }
    for kind in [Kind::Tiny, Kind::TinyDiff, Kind::Enigma, Kind::Nests] {
        for _ in 0..(if scale == 1 { 20 } else { 14 * scale }) {
            u.push(UnitSpec::Text { kind, seed: r.next() });
        }
    }
    for _ in 0..(40 * scale) {
        u.push(UnitSpec::Desc { seed: r.next() });
    }
    u
}

// ------------------------------------------------------------------------------------------------
// seed inputs

fn gen_cfg(size: u8, features: u32) -> refclass::GenCfg {
    let base = match size {
        0 => refclass::GenCfg::small(),
        1 => refclass::GenCfg::default(),
        _ => refclass::GenCfg::large(),
    };
    refclass::GenCfg { features, ..base }
}

fn spans_of(enc: &refclass::Encoded) -> Vec<Span> {
    use refclass::SpanKind::*;
    enc.map
        .iter()
        .filter(|s| matches!(s.kind, Count | Length | CpIndex | BranchOffset | CodeOffset | Tag | Flags | Opcode | Other) && matches!(s.len, 1 | 2 | 4))
        .map(|s| Span { start: s.start, len: s.len, kind: s.kind.clone(), path: s.path.clone() })
        .collect()
}

/// Walks the constant pool of well-formed class bytes: (count, indices of interesting entries).
fn cp_scan(b: &[u8]) -> (u16, Vec<u16>) {
    let mut t = vec![];
    if b.len() < 10 {
        return (0, t);
    }
    let count = u16::from_be_bytes([b[8], b[9]]);
    let mut p = 10usize;
    let mut i = 1u16;
    while i < count && p < b.len() {
        let tag = b[p];
        let sz = match tag {
            1 => {
                if p + 3 > b.len() {
                    break;
                }
                3 + u16::from_be_bytes([b[p + 1], b[p + 2]]) as usize
            }
            3 | 4 | 9 | 10 | 11 | 12 | 17 | 18 => 5,
            5 | 6 => 9,
            7 | 8 | 16 | 19 | 20 => 3,
            15 => 4,
            _ => break,
        };
        if matches!(tag, 15 | 17 | 18) && t.len() < 6 {
            t.push(i);
        }
        if matches!(tag, 5 | 6) {
            if t.len() < 8 {
                t.push(i + 1); // the unusable second slot
            }
            i += 1;
        }
        i += 1;
        p += sz;
    }
    (count, t)
}

fn class_seed(bytes: Vec<u8>, spans: Vec<Span>) -> SeedInput {
    let (cp_count, cp_targets) = cp_scan(&bytes);
    SeedInput { kind: Kind::Class, bytes, spans, nns: 0, cp_targets, cp_count, is_corpus: false, slow: false }
}

fn text_seed(kind: Kind, bytes: Vec<u8>, nns: usize) -> SeedInput {
    SeedInput { kind, bytes, spans: vec![], nns, cp_targets: vec![], cp_count: 0, is_corpus: false, slow: false }
}

fn push_u16(v: &mut Vec<u8>, x: u16) {
    v.extend_from_slice(&x.to_be_bytes());
}
fn push_u32(v: &mut Vec<u8>, x: u32) {
    v.extend_from_slice(&x.to_be_bytes());
}
fn utf8(v: &mut Vec<u8>, s: &[u8]) {
    v.push(1);
    push_u16(v, s.len() as u16);
    v.extend_from_slice(s);
}

/// A minimal hand-assembled class: constant pool entries given as raw bytes, then members/attributes raw.
fn assemble(cp: &[Vec<u8>], cp_count: u16, this: u16, sup: u16, fields: &[u8], nfields: u16, methods: &[u8], nmethods: u16, attrs: &[u8], nattrs: u16) -> Vec<u8> {
    let mut b = vec![0xCA, 0xFE, 0xBA, 0xBE, 0, 0, 0, 61];
    push_u16(&mut b, cp_count);
    for e in cp {
        b.extend_from_slice(e);
    }
    push_u16(&mut b, 0x0021);
    push_u16(&mut b, this);
    push_u16(&mut b, sup);
    push_u16(&mut b, 0);
    push_u16(&mut b, nfields);
    b.extend_from_slice(fields);
    push_u16(&mut b, nmethods);
    b.extend_from_slice(methods);
    push_u16(&mut b, nattrs);
    b.extend_from_slice(attrs);
    b
}

fn e_utf8(s: &str) -> Vec<u8> {
    let mut v = vec![];
    utf8(&mut v, s.as_bytes());
    v
}
fn e_class(i: u16) -> Vec<u8> {
    let mut v = vec![7];
    push_u16(&mut v, i);
    v
}

/// pool shared by the deep-nesting specials:
/// 1 "A" 2 Class#1 3 "java/lang/Object" 4 Class#3 5 <attr name> 6 "LA;" 7 "v" 8 "f" 9 "I" 10 "m" 11 "()V" 12 "(I)V"
fn nest_pool(attr: &str) -> Vec<Vec<u8>> {
    vec![e_utf8("A"), e_class(1), e_utf8("java/lang/Object"), e_class(3), e_utf8(attr), e_utf8("LA;"), e_utf8("v"), e_utf8("f"), e_utf8("I"), e_utf8("m"), e_utf8("()V"), e_utf8("(I)V")]
}

/// annotation nested `depth` times through '@' element values
fn nested_annotation(depth: u32) -> Vec<u8> {
    let mut v = Vec::with_capacity(depth as usize * 7 + 8);
    for _ in 0..depth {
        push_u16(&mut v, 6); // type_index
        push_u16(&mut v, 1); // num_element_value_pairs
        push_u16(&mut v, 7); // element_name_index
        v.push(b'@');
    }
    push_u16(&mut v, 6);
    push_u16(&mut v, 0);
    v
}
/// element value: arrays nested `depth` times, a string at the bottom
fn nested_array_value(depth: u32) -> Vec<u8> {
    let mut v = Vec::with_capacity(depth as usize * 3 + 4);
    for _ in 0..depth {
        v.push(b'[');
        push_u16(&mut v, 1);
    }
    v.push(b's');
    push_u16(&mut v, 7);
    v
}
fn attr(name_idx: u16, body: &[u8]) -> Vec<u8> {
    let mut v = vec![];
    push_u16(&mut v, name_idx);
    push_u32(&mut v, body.len() as u32);
    v.extend_from_slice(body);
    v
}

pub(crate) fn special_bytes(name: &str, depth: u32) -> Vec<u8> {
    special(name, depth).bytes
}

fn special(name: &str, depth: u32) -> SeedInput {
    match name {
        "self-dynamic" | "two-cycle-dynamic" => {
            // 1 "A" 2 Class1 3 "java/lang/Object" 4 Class3 5 "m" 6 "()V" 7 "Code" 8 "BootstrapMethods" 9 "x" 10 "I"
            // 11 NameAndType 9,10  12 Dynamic bsm0 nat11  13 "bsm" 14 "()Ljava/lang/Object;" 15 NameAndType 13,14
            // 16 Methodref 2,15  17 MethodHandle 6,16  18 Dynamic bsm1 nat11
            let mut cp = vec![e_utf8("A"), e_class(1), e_utf8("java/lang/Object"), e_class(3), e_utf8("m"), e_utf8("()V"), e_utf8("Code"), e_utf8("BootstrapMethods"), e_utf8("x"), e_utf8("I")];
            cp.push(vec![12, 0, 9, 0, 10]);
            cp.push(vec![17, 0, 0, 0, 11]);
            cp.push(e_utf8("bsm"));
            cp.push(e_utf8("()Ljava/lang/Object;"));
            cp.push(vec![12, 0, 13, 0, 14]);
            cp.push(vec![10, 0, 2, 0, 15]);
            cp.push(vec![15, 6, 0, 16]);
            cp.push(vec![17, 0, 1, 0, 11]);
            // method m: Code { ldc #12; pop; return }
            let mut code = vec![];
            push_u16(&mut code, 1);
            push_u16(&mut code, 1);
            push_u32(&mut code, 4);
            code.extend_from_slice(&[0x12, 12, 0x57, 0xb1]);
            push_u16(&mut code, 0);
            push_u16(&mut code, 0);
            let mut m = vec![];
            push_u16(&mut m, 0x0009);
            push_u16(&mut m, 5);
            push_u16(&mut m, 6);
            push_u16(&mut m, 1);
            m.extend_from_slice(&attr(7, &code));
            // BootstrapMethods: entry 0 = (17, [own dynamic or the other one]), entry 1 = (17, [12])
            let mut bm = vec![];
            push_u16(&mut bm, 2);
            push_u16(&mut bm, 17);
            push_u16(&mut bm, 1);
            push_u16(&mut bm, if name == "self-dynamic" { 12 } else { 18 });
            push_u16(&mut bm, 17);
            push_u16(&mut bm, 1);
            push_u16(&mut bm, 12);
            let b = assemble(&cp, 19, 2, 4, &[], 0, &m, 1, &attr(8, &bm), 1);
            class_seed(b, vec![])
        }
        "surrogate-names" => {
            // 1 this-name 2 Class1 3 "java/lang/Object" 4 Class3 5 field name 6 "I" 7 method name 8 "()V" 9 "Code"
            // 10 "SourceFile" 11 file name
            let raw = |prefix: &str, lone: bool| -> Vec<u8> {
                let mut b = prefix.as_bytes().to_vec();
                if lone {
                    b.extend_from_slice(&[0xED, 0xA0, 0x80]); // U+D800 alone
                    b.push(b'x');
                }
                let mut v = vec![];
                utf8(&mut v, &b);
                v
            };
            let cp = vec![raw("p/A", depth & 1 != 0), e_class(1), e_utf8("java/lang/Object"), e_class(3), raw("f", depth & 2 != 0), e_utf8("I"), raw("m", depth & 2 != 0), e_utf8("()V"), e_utf8("Code"), e_utf8("SourceFile"), raw("A.java", depth & 2 != 0)];
            let mut f = vec![];
            push_u16(&mut f, 0x0002);
            push_u16(&mut f, 5);
            push_u16(&mut f, 6);
            push_u16(&mut f, 0);
            let mut code = vec![];
            push_u16(&mut code, 1);
            push_u16(&mut code, 1);
            push_u32(&mut code, 5);
            code.extend_from_slice(&[0x03, 0x57, 0xa7, 0x00, 0x03]); // iconst_0 pop goto +3 (to the end: damaged by mutations)
            code[2] = 0xb1;
            code[3] = 0x00;
            code[4] = 0xb1;
            push_u16(&mut code, 0);
            push_u16(&mut code, 0);
            let mut m = vec![];
            push_u16(&mut m, 0x0001);
            push_u16(&mut m, 7);
            push_u16(&mut m, 8);
            push_u16(&mut m, 1);
            m.extend_from_slice(&attr(9, &code));
            let mut sf = vec![];
            push_u16(&mut sf, 11);
            class_seed(assemble(&cp, 12, 2, 4, &f, 1, &m, 1, &attr(10, &sf), 1), vec![])
        }
        "deep-desc-text" => {
            let mut d = vec![b'['; depth as usize];
            d.push(b'I');
            text_seed(Kind::Desc, d, 0)
        }
        "array-class-dims" => {
            // 1 "A" 2 Class1 3 "java/lang/Object" 4 Class3 5 "NestHost" 6 "[[[..I" 7 Class6
            let name = format!("{}I", "[".repeat(depth as usize));
            let cp = vec![e_utf8("A"), e_class(1), e_utf8("java/lang/Object"), e_class(3), e_utf8("NestHost"), e_utf8(&name), e_class(6)];
            let mut body = vec![];
            push_u16(&mut body, 7);
            class_seed(assemble(&cp, 8, 2, 4, &[], 0, &[], 0, &attr(5, &body), 1), vec![])
        }
        "max-labels" => {
            // 1 "A" 2 Class1 3 "java/lang/Object" 4 Class3 5 "m" 6 "()V" 7 "Code" 8 "LineNumberTable"
            // 9 "LocalVariableTable" 10 "v" 11 "I"
            let cp = vec![e_utf8("A"), e_class(1), e_utf8("java/lang/Object"), e_class(3), e_utf8("m"), e_utf8("()V"), e_utf8("Code"), e_utf8("LineNumberTable"), e_utf8("LocalVariableTable"), e_utf8("v"), e_utf8("I")];
            let mut code = vec![];
            push_u16(&mut code, 1);
            push_u16(&mut code, 1);
            push_u32(&mut code, 65_535);
            code.extend(std::iter::repeat(0u8).take(65_534)); // nop
            code.push(0xb1); // return
            push_u16(&mut code, 0); // exception table
            push_u16(&mut code, 2); // attributes
            let mut lnt = vec![];
            push_u16(&mut lnt, depth as u16);
            for pc in 0..depth {
                push_u16(&mut lnt, pc as u16);
                push_u16(&mut lnt, (pc % 50_000) as u16 + 1);
            }
            code.extend_from_slice(&attr(8, &lnt));
            let mut lvt = vec![];
            push_u16(&mut lvt, 1);
            push_u16(&mut lvt, 0); // start_pc
            push_u16(&mut lvt, 65_535); // length: the end label is the exclusive end of the code
            push_u16(&mut lvt, 10);
            push_u16(&mut lvt, 11);
            push_u16(&mut lvt, 0);
            code.extend_from_slice(&attr(9, &lvt));
            let mut m = vec![];
            push_u16(&mut m, 0x0009);
            push_u16(&mut m, 5);
            push_u16(&mut m, 6);
            push_u16(&mut m, 1);
            m.extend_from_slice(&attr(7, &code));
            let mut sd = class_seed(assemble(&cp, 12, 2, 4, &[], 0, &m, 1, &[], 0), vec![]);
            sd.slow = true;
            sd
        }
        "dynamic-dag" => {
            const LEVELS: u16 = 16;
            // 1 "A" 2 Class1 3 "java/lang/Object" 4 Class3 5 "m" 6 "()V" 7 "Code" 8 "BootstrapMethods" 9 "x" 10 "I"
            // 11 NameAndType 9,10  12 "bsm" 13 "()Ljava/lang/Object;" 14 NameAndType 12,13  15 Methodref 2,14
            // 16 MethodHandle 6,15  17.. Dynamic bsm i, nat 11
            let mut cp = vec![e_utf8("A"), e_class(1), e_utf8("java/lang/Object"), e_class(3), e_utf8("m"), e_utf8("()V"), e_utf8("Code"), e_utf8("BootstrapMethods"), e_utf8("x"), e_utf8("I")];
            cp.push(vec![12, 0, 9, 0, 10]);
            cp.push(e_utf8("bsm"));
            cp.push(e_utf8("()Ljava/lang/Object;"));
            cp.push(vec![12, 0, 12, 0, 13]);
            cp.push(vec![10, 0, 2, 0, 14]);
            cp.push(vec![15, 6, 0, 15]);
            for i in 0..LEVELS {
                cp.push(vec![17, (i >> 8) as u8, i as u8, 0, 11]);
            }
            let mut code = vec![];
            push_u16(&mut code, 1);
            push_u16(&mut code, 1);
            push_u32(&mut code, 3 * depth + 1);
            for _ in 0..depth {
                code.extend_from_slice(&[0x12, 17, 0x57]);
            }
            code.push(0xb1);
            push_u16(&mut code, 0);
            push_u16(&mut code, 0);
            let mut m = vec![];
            push_u16(&mut m, 0x0009);
            push_u16(&mut m, 5);
            push_u16(&mut m, 6);
            push_u16(&mut m, 1);
            m.extend_from_slice(&attr(7, &code));
            let mut bm = vec![];
            push_u16(&mut bm, LEVELS);
            for i in 0..LEVELS {
                push_u16(&mut bm, 16);
                if i + 1 < LEVELS {
                    push_u16(&mut bm, 2);
                    push_u16(&mut bm, 17 + i + 1);
                    push_u16(&mut bm, 17 + i + 1);
                } else {
                    push_u16(&mut bm, 0);
                }
            }
            let b = assemble(&cp, 17 + LEVELS, 2, 4, &[], 0, &m, 1, &attr(8, &bm), 1);
            let mut sd = class_seed(b, vec![]);
            sd.slow = true;
            sd
        }
        "deep-annotation" | "deep-array-value" => {
            let cp = nest_pool("RuntimeVisibleAnnotations");
            let mut body = vec![];
            push_u16(&mut body, 1);
            if name == "deep-annotation" {
                body.extend_from_slice(&nested_annotation(depth));
            } else {
                push_u16(&mut body, 6);
                push_u16(&mut body, 1);
                push_u16(&mut body, 7);
                body.extend_from_slice(&nested_array_value(depth));
            }
            class_seed(assemble(&cp, 13, 2, 4, &[], 0, &[], 0, &attr(5, &body), 1), vec![])
        }
        "deep-field-annotation" => {
            let cp = nest_pool("RuntimeInvisibleAnnotations");
            let mut body = vec![];
            push_u16(&mut body, 1);
            body.extend_from_slice(&nested_annotation(depth));
            let mut f = vec![];
            push_u16(&mut f, 0x0002);
            push_u16(&mut f, 8);
            push_u16(&mut f, 9);
            push_u16(&mut f, 1);
            f.extend_from_slice(&attr(5, &body));
            class_seed(assemble(&cp, 13, 2, 4, &f, 1, &[], 0, &[], 0), vec![])
        }
        "deep-annotation-default" | "deep-param-annotation" => {
            let cp = nest_pool(if name == "deep-annotation-default" { "AnnotationDefault" } else { "RuntimeVisibleParameterAnnotations" });
            let body = if name == "deep-annotation-default" {
                nested_array_value(depth)
            } else {
                let mut b = vec![1u8];
                push_u16(&mut b, 1);
                b.extend_from_slice(&nested_annotation(depth));
                b
            };
            let mut m = vec![];
            push_u16(&mut m, 0x0401);
            push_u16(&mut m, 10);
            push_u16(&mut m, if name == "deep-annotation-default" { 11 } else { 12 });
            push_u16(&mut m, 1);
            m.extend_from_slice(&attr(5, &body));
            class_seed(assemble(&cp, 13, 2, 4, &[], 0, &m, 1, &[], 0), vec![])
        }
        "deep-type-annotation" => {
            let cp = nest_pool("RuntimeVisibleTypeAnnotations");
            let mut body = vec![];
            push_u16(&mut body, 1);
            body.push(0x10); // class_extends
            push_u16(&mut body, 0xFFFF);
            body.push(0); // path_length
            body.extend_from_slice(&nested_annotation(depth));
            class_seed(assemble(&cp, 13, 2, 4, &[], 0, &[], 0, &attr(5, &body), 1), vec![])
        }
        "deep-array-descriptor" => {
            let mut cp = nest_pool("Deprecated");
            let mut d = vec![b'['; depth as usize];
            d.push(b'I');
            let mut e = vec![];
            utf8(&mut e, &d);
            cp[8] = e; // entry 9: the field descriptor
            let mut f = vec![];
            push_u16(&mut f, 0x0002);
            push_u16(&mut f, 8);
            push_u16(&mut f, 9);
            push_u16(&mut f, 0);
            class_seed(assemble(&cp, 13, 2, 4, &f, 1, &[], 0, &[], 0), vec![])
        }
        "many-args-invokeinterface" => {
            let mut desc = String::from("(");
            for _ in 0..depth {
                desc.push('J');
            }
            desc.push_str(")V");
            let mut cp = vec![e_utf8("A"), e_class(1), e_utf8("java/lang/Object"), e_class(3), e_utf8("m"), e_utf8("()V"), e_utf8("Code"), e_utf8("I"), e_class(8), e_utf8("f"), e_utf8(&desc)];
            cp.push(vec![12, 0, 10, 0, 11]);
            cp.push(vec![11, 0, 9, 0, 12]);
            let mut code = vec![];
            push_u16(&mut code, 2);
            push_u16(&mut code, 1);
            push_u32(&mut code, 7);
            code.extend_from_slice(&[0x2a, 0xb9, 0, 13, 1, 0, 0xb1]);
            push_u16(&mut code, 0);
            push_u16(&mut code, 0);
            let mut m = vec![];
            push_u16(&mut m, 0x0001);
            push_u16(&mut m, 5);
            push_u16(&mut m, 6);
            push_u16(&mut m, 1);
            m.extend_from_slice(&attr(7, &code));
            class_seed(assemble(&cp, 14, 2, 4, &[], 0, &m, 1, &[], 0), vec![])
        }
        "deep-enigma" => {
            let mut s = String::new();
            for d in 0..depth {
                for _ in 0..d {
                    s.push('\t');
                }
                s.push_str(&format!("CLASS c{d} n{d}\n"));
            }
            text_seed(Kind::Enigma, s.into_bytes(), 2)
        }
        other => panic!("unknown special {other}"),
    }
}

fn gen_nests_text(r: &mut Rng) -> String {
    let mut s = String::new();
    let n = r.range(0, 8);
    for i in 0..n {
        let class = format!("net/minecraft/C_{}", r.below(50));
        let encl = format!("net/minecraft/C_{}", r.below(50));
        let (mn, md) = if r.chance(50) { ("m_1".to_string(), "(I)V".to_string()) } else { (String::new(), String::new()) };
        let inner = match r.below(3) {
            0 => format!("{}", r.range(1, 9)),
            1 => format!("{}Local", r.range(1, 3)),
            _ => format!("Inner{i}"),
        };
        let access = match r.below(3) {
            0 => format!("{}", r.below(65536)),
            1 => format!("0x{:x}", r.below(65536)),
            _ => format!("0b{:b}", r.below(65536)),
        };
        s.push_str(&format!("{class}\t{encl}\t{mn}\t{md}\t{inner}\t{access}\n"));
    }
    s
}

fn gen_desc(r: &mut Rng) -> String {
    let classes: Vec<String> = vec!["java/lang/Object".into(), "a".into(), "net/minecraft/C_1$D".into()];
    match r.below(3) {
        0 => refmap::gen_field_desc(r, &classes),
        _ => refmap::gen_method_desc(r, &classes).0,
    }
}

fn realize(spec: &UnitSpec) -> SeedInput {
    match spec {
        UnitSpec::GenClass { seed, size, features } => {
            let mut r = Rng::new(*seed);
            let cfg = gen_cfg(*size, *features);
            // a handful of attempts: the encoder may refuse a drawn class (pool overflow etc.)
            for _ in 0..8 {
                let sem = refclass::gen_class(&mut r, &cfg);
                let mut layout = refclass::gen_layout(&mut r);
                layout.emit_map = true;
                if let Ok(enc) = refclass::encode(&sem, &layout) {
                    let spans = spans_of(&enc);
                    return class_seed(enc.bytes, spans);
                }
            }
            special("self-dynamic", 0)
        }
        UnitSpec::Corpus { idx, reencode } => {
            let (_, bytes) = &crate::corpus::corpus()[*idx];
            if *reencode {
                if let Ok(sem) = refclass::parse(bytes) {
                    let layout = refclass::Layout { emit_map: true, ..refclass::Layout::default() };
                    if let Ok(enc) = refclass::encode(&sem, &layout) {
                        let spans = spans_of(&enc);
                        return class_seed(enc.bytes, spans);
                    }
                }
            }
            let mut sd = class_seed(bytes.clone(), vec![]);
            sd.is_corpus = true;
            sd
        }
        UnitSpec::Special { name, depth } => special(name, *depth),
        UnitSpec::Text { kind, seed } => {
            let mut r = Rng::new(*seed);
            let cfg = refmap::GenCfg {
                nns: if *kind == Kind::Tiny { r.range(2, 3) as usize } else { 2 },
                max_classes: *r.pick(&[1usize, 3, 6]),
                max_members: 3,
                unicode: r.chance(40),
                comments: r.chance(70),
                missing: *kind == Kind::Tiny && r.chance(50),
                inner: r.chance(60),
                enigma: *kind == Kind::Enigma,
                big: false,
            };
            match kind {
                Kind::Tiny => {
                    let m = refmap::gen_mapset(&mut r, &cfg);
                    text_seed(Kind::Tiny, refmap::write_tiny(&m, Some(&mut r)).into_bytes(), m.ns.len())
                }
                Kind::TinyDiff => {
                    let a = refmap::gen_mapset(&mut r, &cfg);
                    let b = refmap::gen_mapset(&mut r, &cfg);
                    let d = crate::refdiff::ref_diff(&a, &b).unwrap_or_default();
                    text_seed(Kind::TinyDiff, crate::refdiff::write_tinydiff(&d, Some(&mut r)).into_bytes(), 2)
                }
                Kind::Enigma => {
                    let m = refmap::gen_mapset(&mut r, &cfg);
                    let text: String = refmap::write_enigma_files(&m).into_iter().map(|(_, t)| t).collect();
                    text_seed(Kind::Enigma, text.into_bytes(), 2)
                }
                Kind::Nests => text_seed(Kind::Nests, gen_nests_text(&mut r).into_bytes(), 2),
                _ => unreachable!(),
            }
        }
        UnitSpec::Desc { seed } => {
            let mut r = Rng::new(*seed);
            text_seed(Kind::Desc, gen_desc(&mut r).into_bytes(), 0)
        }
    }
}

// ------------------------------------------------------------------------------------------------
// mutations

const TOKENS: [&[u8]; 30] = [
    b"", b"\t", b" ", b"\\", b"\\n", b"c", b"f", b"m", b"p", b"tiny", b"2", b"0", b"-1", b"65536", b"4294967296", b"[", b"(", b")V", b"L;", b"a/b$c", b"\xff\xfe", b"CLASS", "\u{e9}".as_bytes(), "\u{20ac}".as_bytes(), "1\u{e9}".as_bytes(), "0x\u{20ac}".as_bytes(), "0b1\u{e9}".as_bytes(), "\u{1f600}".as_bytes(), "12\u{1f600}".as_bytes(), "\u{feff}c".as_bytes(),
];

fn field_values(s: &Span, seed: &SeedInput, cur: u64, thorough: bool) -> Vec<(u64, &'static str)> {
    use refclass::SpanKind::*;
    let max: u64 = match s.len {
        1 => 0xFF,
        2 => 0xFFFF,
        _ => 0xFFFF_FFFF,
    };
    let mut v: Vec<(u64, &'static str)> = vec![(0, "zero"), (1, "one"), (max, "max"), (max - 1, "max-1"), (cur.wrapping_add(1) & max, "plus1"), (cur.wrapping_sub(1) & max, "minus1")];
    if s.len == 4 {
        v.push((0x7FFF_FFFF, "i32max"));
        v.push((0x8000_0000, "i32min"));
        v.push(((seed.bytes.len() as u64).saturating_sub((s.start + 4) as u64), "rest-of-file"));
        v.push((0x0100_0000, "16MiB"));
        v.push((0x1000_0000, "256MiB"));
    }
    if s.len == 2 {
        v.push((0x7FFF, "i16max"));
        v.push((0x8000, "i16min"));
    }
    match s.kind {
        CpIndex => {
            v.push((seed.cp_count as u64 & max, "cp-count"));
            v.push((seed.cp_count.saturating_sub(1) as u64 & max, "cp-last"));
            if let Some(own) = s.path.strip_prefix("cp[").and_then(|p| p.split(']').next()).and_then(|n| n.parse::<u64>().ok()) {
                v.push((own & max, "own-index"));
            }
            for t in &seed.cp_targets {
                v.push((*t as u64 & max, "aimed-index"));
            }
        }
        Tag | Opcode => {
            let extra: &[u64] = if thorough { &[] } else { &[2, 3, 4, 5, 6, 7, 8, 9, 10, 11, 12, 13, 14, 15, 16, 17, 18, 19, 20, 21, 63, 64, 127, 128, 196, 201, 202, 246, 247, 248, 250, 251, 252] };
            if thorough {
                for x in 0..=255u64 {
                    v.push((x, "any"));
                }
            }
            for x in extra {
                v.push((*x, "tagset"));
            }
        }
        _ => {}
    }
    v.retain(|(x, _)| *x != cur);
    v.sort();
    v.dedup_by_key(|x| x.0);
    v
}

fn cur_value(b: &[u8], s: &Span) -> u64 {
    let mut v = 0u64;
    for i in 0..s.len {
        v = (v << 8) | *b.get(s.start + i).unwrap_or(&0) as u64;
    }
    v
}

fn lines_of(b: &[u8]) -> Vec<&[u8]> {
    // split keeping the line feed with its line
    let mut out = vec![];
    let mut s = 0;
    for (i, c) in b.iter().enumerate() {
        if *c == b'\n' {
            out.push(&b[s..=i]);
            s = i + 1;
        }
    }
    if s < b.len() {
        out.push(&b[s..]);
    }
    out
}

fn enumerate(seed: &SeedInput, tier: Tier, r: &mut Rng) -> Vec<Mut> {
    let thorough = tier == Tier::Thorough;
    let n = seed.bytes.len();
    let mut m = vec![Mut::None];
    if seed.slow {
        for k in 0..24 {
            m.push(Mut::Trunc { at: n - 1 - (k * n / 24).min(n - 1) });
        }
        for _ in 0..24 {
            m.push(Mut::Flip { off: r.usize(n), bit: r.below(8) as u8 });
        }
        return m;
    }
    // hand-built deep structures parse slowly (one recursion level per few bytes): sample their truncations
    let big = n > 64 * 1024 || (seed.spans.is_empty() && seed.kind == Kind::Class && n > 4096 && !seed.is_corpus);
    // (a) truncation at every offset (complete); for the huge hand-built inputs: every offset in the first and last
    // 64 bytes plus 200 spread offsets
    if !big {
        for at in 0..n {
            m.push(Mut::Trunc { at });
        }
    } else {
        for at in (0..64.min(n)).chain(n.saturating_sub(64)..n) {
            m.push(Mut::Trunc { at });
        }
        for k in 1..200 {
            m.push(Mut::Trunc { at: n / 200 * k });
        }
    }
    // (a') a medium that stays broken from an offset on, per error kind: a reader loop that treats an error as
    // "skip and go on" never ends there (missed seeded change C16-8)
    if n > 0 && seed.kind != Kind::Desc && seed.kind != Kind::Nests {
        let k = if thorough { 24 } else { 6 };
        for kind in 0..crate::simio::ERR_KINDS.len() as u8 {
            for j in 0..k {
                m.push(Mut::ErrFrom { at: (j * n / k).min(n - 1), kind });
            }
        }
    }
    // (b) every field of the offset map at boundary values (complete per seed input)
    for (i, s) in seed.spans.iter().enumerate() {
        let cur = cur_value(&seed.bytes, s);
        for (val, what) in field_values(s, seed, cur, thorough) {
            m.push(Mut::Set { span: i as u32, val, what: what.to_string() });
        }
    }
    // (c) single-bit flips: every bit of every offset for inputs <= 2 KiB (thorough), sampled otherwise
    if n > 0 && !big {
        if n <= 2048 && (thorough || n <= 160) {
            for off in 0..n {
                for bit in 0..8 {
                    m.push(Mut::Flip { off, bit });
                }
            }
        } else {
            let k = if thorough { 6000 } else { 900 };
            for _ in 0..k {
                m.push(Mut::Flip { off: r.usize(n), bit: r.below(8) as u8 });
            }
        }
    }
    // line / token edits for the text formats
    if matches!(seed.kind, Kind::Tiny | Kind::TinyDiff | Kind::Enigma | Kind::Nests) && !big {
        let ls = lines_of(&seed.bytes);
        let cap = if thorough { 400 } else { 60 };
        for (li, l) in ls.iter().enumerate().take(cap) {
            let li = li as u32;
            m.push(Mut::LineDel { line: li });
            m.push(Mut::LineDup { line: li });
            m.push(Mut::LineSwap { line: li });
            m.push(Mut::Indent { line: li, add: true });
            m.push(Mut::Indent { line: li, add: false });
            let ntok = l.split(|c| *c == b'\t' || *c == b' ').count().min(10);
            for t in 0..ntok as u32 {
                for repl in 0..TOKENS.len() as u32 {
                    m.push(Mut::Tok { line: li, tok: t, repl });
                }
            }
        }
    }
    // a multi-byte character at every character boundary of every line (byte-offset arithmetic on text is a classic)
    if matches!(seed.kind, Kind::Tiny | Kind::TinyDiff | Kind::Enigma | Kind::Nests | Kind::Desc) && !big {
        let ls = lines_of(&seed.bytes);
        let cap = if thorough { 200 } else { 40 };
        for (li, l) in ls.iter().enumerate().take(cap) {
            let Ok(text) = std::str::from_utf8(l) else { continue };
            for (at, _) in text.char_indices().take(if thorough { 400 } else { 120 }) {
                for ch in 0..INS_CHARS.len() as u8 {
                    m.push(Mut::CharIns { line: li as u32, at: at as u32, ch });
                }
            }
        }
    }
    if seed.kind == Kind::Desc {
        for repl in 0..TOKENS.len() as u32 {
            m.push(Mut::Tok { line: 0, tok: 0, repl });
        }
    }
    // (e) seeded random multi-byte edits
    if !big {
        let k = if thorough { 1500 } else { 250 };
        for _ in 0..k {
            m.push(Mut::Edit { seed: r.next() });
        }
    }
    m
}

fn apply(seed: &SeedInput, mu: &Mut) -> Vec<u8> {
    let b = &seed.bytes;
    match mu {
        Mut::None | Mut::ErrFrom { .. } => b.clone(),
        Mut::Trunc { at } => b[..(*at).min(b.len())].to_vec(),
        Mut::Set { span, val, .. } => {
            let mut o = b.clone();
            if let Some(s) = seed.spans.get(*span as usize) {
                for i in 0..s.len {
                    if let Some(x) = o.get_mut(s.start + i) {
                        *x = (val >> (8 * (s.len - 1 - i))) as u8;
                    }
                }
            }
            o
        }
        Mut::Flip { off, bit } => {
            let mut o = b.clone();
            if let Some(x) = o.get_mut(*off) {
                *x ^= 1 << (bit & 7);
            }
            o
        }
        Mut::Edit { seed: s } => {
            let mut r = Rng::new(*s);
            let mut o = b.clone();
            for _ in 0..r.range(1, 4) {
                if o.is_empty() {
                    o.push(r.below(256) as u8);
                    continue;
                }
                let at = r.usize(o.len());
                match r.below(5) {
                    0 => {
                        // overwrite a run with random bytes
                        for i in 0..r.range(1, 8) as usize {
                            if let Some(x) = o.get_mut(at + i) {
                                *x = r.below(256) as u8;
                            }
                        }
                    }
                    1 => {
                        // delete a run
                        let k = (r.range(1, 16) as usize).min(o.len() - at);
                        o.drain(at..at + k);
                    }
                    2 => {
                        // insert random bytes
                        let k = r.range(1, 8) as usize;
                        let ins: Vec<u8> = (0..k).map(|_| r.below(256) as u8).collect();
                        o.splice(at..at, ins);
                    }
                    3 => {
                        // copy a run from elsewhere
                        let from = r.usize(o.len());
                        let k = (r.range(1, 32) as usize).min(o.len() - from);
                        let run: Vec<u8> = o[from..from + k].to_vec();
                        for (i, x) in run.into_iter().enumerate() {
                            if let Some(y) = o.get_mut(at + i) {
                                *y = x;
                            }
                        }
                    }
                    _ => {
                        // 0x00 / 0xFF run
                        let fill = if r.chance(50) { 0 } else { 0xFF };
                        for i in 0..r.range(1, 6) as usize {
                            if let Some(x) = o.get_mut(at + i) {
                                *x = fill;
                            }
                        }
                    }
                }
            }
            o
        }
        Mut::LineDel { line } | Mut::LineDup { line } | Mut::LineSwap { line } => {
            let ls = lines_of(b);
            let li = *line as usize;
            let mut o = vec![];
            let mut i = 0;
            while i < ls.len() {
                if i == li {
                    match mu {
                        Mut::LineDel { .. } => {}
                        Mut::LineDup { .. } => {
                            o.extend_from_slice(ls[i]);
                            o.extend_from_slice(ls[i]);
                        }
                        _ => {
                            if i + 1 < ls.len() {
                                o.extend_from_slice(ls[i + 1]);
                                o.extend_from_slice(ls[i]);
                                i += 1;
                            } else {
                                o.extend_from_slice(ls[i]);
                            }
                        }
                    }
                } else {
                    o.extend_from_slice(ls[i]);
                }
                i += 1;
            }
            o
        }
        Mut::Indent { line, add } => {
            let ls = lines_of(b);
            let mut o = vec![];
            for (i, l) in ls.iter().enumerate() {
                if i == *line as usize {
                    if *add {
                        o.push(b'\t');
                        o.extend_from_slice(l);
                    } else if l.first() == Some(&b'\t') {
                        o.extend_from_slice(&l[1..]);
                    } else {
                        o.extend_from_slice(l);
                    }
                } else {
                    o.extend_from_slice(l);
                }
            }
            o
        }
        Mut::CharIns { line, at, ch } => {
            let ls = lines_of(b);
            let mut o = vec![];
            for (i, l) in ls.iter().enumerate() {
                if i == *line as usize {
                    let at = (*at as usize).min(l.len());
                    o.extend_from_slice(&l[..at]);
                    o.extend_from_slice(INS_CHARS[*ch as usize % INS_CHARS.len()].as_bytes());
                    o.extend_from_slice(&l[at..]);
                } else {
                    o.extend_from_slice(l);
                }
            }
            o
        }
        Mut::Tok { line, tok, repl } => {
            let repl = TOKENS[*repl as usize % TOKENS.len()];
            if seed.kind == Kind::Desc {
                // for descriptors: put the token at a position derived from its index
                let mut o = b.clone();
                let at = if o.is_empty() { 0 } else { (*repl.first().unwrap_or(&0) as usize * 7 + repl.len()) % (o.len() + 1) };
                o.splice(at..at, repl.iter().copied());
                return o;
            }
            let ls = lines_of(b);
            let mut o = vec![];
            for (i, l) in ls.iter().enumerate() {
                if i != *line as usize {
                    o.extend_from_slice(l);
                    continue;
                }
                // replace token `tok` (tokens separated by TAB or SPACE, separators kept)
                let mut t = 0u32;
                let mut j = 0;
                while j < l.len() {
                    let s = j;
                    while j < l.len() && l[j] != b'\t' && l[j] != b' ' && l[j] != b'\n' {
                        j += 1;
                    }
                    if t == *tok {
                        o.extend_from_slice(repl);
                    } else {
                        o.extend_from_slice(&l[s..j]);
                    }
                    if j < l.len() {
                        o.push(l[j]);
                        j += 1;
                    }
                    t += 1;
                }
            }
            o
        }
    }
}

/// coarse class of a mutation, used in identities of verdicts that carry no source location
fn mut_class(seed: &SeedInput, mu: &Mut) -> String {
    match mu {
        Mut::None => "pristine".into(),
        Mut::ErrFrom { kind, .. } => format!("err-from:{}", crate::simio::ERR_KINDS[*kind as usize % crate::simio::ERR_KINDS.len()]),
        Mut::Trunc { .. } => "trunc".into(),
        Mut::Set { span, what, .. } => {
            let p = seed.spans.get(*span as usize).map(|s| s.path.as_str()).unwrap_or("?");
            let leaf = p.rsplit('.').next().unwrap_or(p);
            format!("set:{}={}", abstract_indices(leaf), what)
        }
        Mut::Flip { .. } => "flip".into(),
        Mut::Edit { .. } => "edit".into(),
        Mut::LineDel { .. } => "line-del".into(),
        Mut::LineDup { .. } => "line-dup".into(),
        Mut::LineSwap { .. } => "line-swap".into(),
        Mut::Indent { .. } => "indent".into(),
        Mut::Tok { .. } => "token".into(),
        Mut::CharIns { .. } => "char-insert".into(),
    }
}

// ------------------------------------------------------------------------------------------------
// operations (the real code)

pub const OPS: [&str; 13] =
    ["read_class+write_class", "read_class_multi(unit visitor)", "tiny_v2::read<2>", "tiny_v2::read<3>", "tiny_v2_diff::read", "tiny_v2_diff::read_file", "enigma_file::read_into", "Nests::read", "FieldDescriptor::parse", "MethodDescriptor::parse", "ReturnDescriptor::parse", "descriptor try_from", "read_class_multi(re-entrant visitor)"];

fn ops_for(kind: Kind, nns: usize, m: usize) -> Vec<usize> {
    match kind {
        // the undamaged input is also read by a visitor that reads the same class again from inside its callbacks
        Kind::Class if m == 0 => vec![0, 1, 12],
        Kind::Class => vec![0, 1],
        Kind::Tiny => {
            if nns == 3 {
                vec![3, 2]
            } else {
                vec![2, 3]
            }
        }
        Kind::TinyDiff => {
            if m % 16 == 0 {
                vec![4, 5]
            } else {
                vec![4]
            }
        }
        Kind::Enigma => vec![6],
        Kind::Nests => vec![7],
        Kind::Desc => vec![8, 9, 10, 11],
    }
}

#[derive(Default, Clone, Copy)]
struct OpOutcome {
    ok: bool,
    /// the writer ran (class reader accepted)
    wrote: bool,
}

struct Verdict {
    class: &'static str,
    path: String,
    detail: String,
}

fn msg_class(msg: &str) -> String {
    // "file:line: message" -> "file: message with digits abstracted"
    let mut parts = msg.splitn(3, ':');
    let file = parts.next().unwrap_or("");
    let file = file.strip_prefix("/repo/").unwrap_or(file);
    let _line = parts.next();
    let text = parts.next().unwrap_or("").trim();
    let mut out = String::new();
    let mut last_hash = false;
    for c in text.chars().take(90) {
        if c.is_ascii_digit() {
            if !last_hash {
                out.push('#');
            }
            last_hash = true;
        } else {
            out.push(c);
            last_hash = false;
        }
    }
    format!("{file}: {out}")
}

fn guarded<T>(input_len: usize, f: impl FnOnce() -> T) -> (Result<T, String>, sandbox::AllocVerdict) {
    sandbox::arm(sandbox::limit_for(input_len));
    let r = no_panic(f);
    let v = sandbox::disarm();
    (r, v)
}

thread_local! {
    /// the plan of the medium the next `run_op` reads its input through (plain unless the mutation is a medium fault)
    static MEDIUM: std::cell::RefCell<IoPlan> = std::cell::RefCell::new(IoPlan::plain());
}
fn set_medium(mu: &Mut) {
    let plan = match mu {
        Mut::ErrFrom { at, kind } => IoPlan { faults: vec![crate::simio::Fault::EioAtOffset { off: *at as u64 }], err_kind: kind + 1, ..IoPlan::plain() },
        _ => IoPlan::plain(),
    };
    MEDIUM.with(|m| *m.borrow_mut() = plan);
}
fn medium() -> IoPlan {
    MEDIUM.with(|m| m.borrow().clone())
}

fn run_op(op: usize, input: &[u8], scratch: &std::path::Path) -> (OpOutcome, Vec<Verdict>) {
    let name = OPS[op];
    let mut out = OpOutcome::default();
    let mut vs = vec![];
    let n = input.len();
    macro_rules! judge {
        ($res:expr, $alloc:expr, $stage:expr) => {{
            if $alloc.denied > 0 {
                vs.push(Verdict {
                    class: "alloc-unrelated",
                    path: format!("{}", $stage),
                    detail: format!("a request of {} bytes pushed live allocation over the limit of {} bytes for an input of {} bytes (peak {} bytes)", $alloc.denied, sandbox::limit_for(n), n, $alloc.peak),
                });
            }
            match $res {
                Err(pm) => {
                    vs.push(Verdict { class: "panic", path: format!("{}:{}", $stage, msg_class(&pm)), detail: pm });
                    None
                }
                Ok(x) => Some(x),
            }
        }};
    }
    match op {
        0 => {
            let mut r = SimReader::new(input, &medium());
            let (res, al) = guarded(n, || duke::read_class(&mut r));
            if r.fuel_exhausted {
                vs.push(Verdict { class: "runaway", path: "read_class".into(), detail: format!("{} medium calls for {} bytes", r.stats.calls, n) });
            }
            if let Some(Ok(tree)) = judge!(res, al, "read_class") {
                out.ok = true;
                out.wrote = true;
                // whatever the reader accepts, the writer handles without panicking
                let mut sink = Vec::new();
                sandbox::arm(sandbox::limit_for(n.max(1 << 16) * 4));
                let wres = no_panic(|| duke::write_class(&mut sink, &tree));
                let wal = sandbox::disarm();
                let _ = judge!(wres, wal, "write_class(read_class)");
                // and into a sink that stops accepting bytes (Ok(0), the answer of a full fixed-size buffer): the writer
                // must end, with an error, not spin (missed seeded change C16-7); one accepted input in four
                if crate::rng::fnv(input) % 4 == 0 || n < 64 {
                    let at_call = (crate::rng::fnv(input) >> 8) % 6;
                    let mut w = crate::simio::SimWriter::new(&IoPlan { faults: vec![crate::simio::Fault::WriteZero { at_call: at_call as u32 }], ..IoPlan::plain() });
                    crate::simio::SINK_RUNAWAY.with(|c| c.set(false));
                    let zres = no_panic(|| duke::write_class(&mut w, &tree));
                    if crate::simio::SINK_RUNAWAY.with(|c| c.replace(false)) {
                        vs.push(Verdict { class: "runaway", path: "write_class(read_class):sink-accepts-nothing".into(), detail: format!("more than {} calls on a sink that answers Ok(0) from call {at_call} on", crate::simio::WRITER_FUEL) });
                    }
                    match zres {
                        Err(pm) => vs.push(Verdict { class: "panic", path: format!("write_class(read_class):sink-accepts-nothing:{}", msg_class(&pm)), detail: pm }),
                        Ok(Ok(())) if !sink.is_empty() && w.stats.fired.contains(&"write_zero") => vs.push(Verdict { class: "writer-ok-with-incomplete-sink", path: "write_class(read_class):sink-accepts-nothing".into(), detail: format!("Ok although the sink holds {} of {} bytes", w.accepted().len(), sink.len()) }),
                        _ => {}
                    }
                }
            }
        }
        1 => {
            let mut r = SimReader::new(input, &medium());
            let (res, al) = guarded(n, || duke::read_class_multi(&mut r, ()));
            if r.fuel_exhausted {
                vs.push(Verdict { class: "runaway", path: "read_class_multi".into(), detail: format!("{} medium calls for {} bytes", r.stats.calls, n) });
            }
            if let Some(Ok(())) = judge!(res, al, "read_class_multi") {
                out.ok = true;
            }
        }
        12 => {
            let mut r = SimReader::new(input, &medium());
            let loader = crate::reentrant::Loader::new(input.to_vec(), 3, 4);
            let (res, al) = guarded(n, || duke::read_class_multi(&mut r, loader).map(|_| ()));
            if r.fuel_exhausted {
                vs.push(Verdict { class: "runaway", path: name.into(), detail: "fuel".into() });
            }
            if let Some(Ok(())) = judge!(res, al, name) {
                out.ok = true;
            }
        }
        2 | 3 => {
            let mut r = SimReader::new(input, &medium());
            let (res, al) = guarded(n, || {
                if op == 2 {
                    quill::tiny_v2::read::<2, Ns>(&mut r).map(|_| ())
                } else {
                    quill::tiny_v2::read::<3, Ns>(&mut r).map(|_| ())
                }
            });
            if r.fuel_exhausted {
                vs.push(Verdict { class: "runaway", path: name.into(), detail: "fuel".into() });
            }
            if let Some(Ok(())) = judge!(res, al, name) {
                out.ok = true;
            }
        }
        4 => {
            let mut r = SimReader::new(input, &medium());
            let (res, al) = guarded(n, || quill::tiny_v2_diff::verif_read(&mut r).map(|_| ()));
            if r.fuel_exhausted {
                vs.push(Verdict { class: "runaway", path: name.into(), detail: "fuel".into() });
            }
            if let Some(Ok(())) = judge!(res, al, name) {
                out.ok = true;
            }
        }
        5 => {
            let p = scratch.join("in.tinydiff");
            if std::fs::write(&p, input).is_ok() {
                let (res, al) = guarded(n, || quill::tiny_v2_diff::read_file(&p).map(|_| ()));
                if let Some(Ok(())) = judge!(res, al, name) {
                    out.ok = true;
                }
            }
        }
        6 => {
            let mut r = SimReader::new(input, &medium());
            let (res, al) = guarded(n, || {
                let mut q: quill::tree::mappings::Mappings<2, Ns> = quill::tree::mappings::Mappings::from_namespaces(["a", "b"])?;
                quill::enigma_file::read_into(&mut r, &mut q)
            });
            if r.fuel_exhausted {
                vs.push(Verdict { class: "runaway", path: name.into(), detail: "fuel".into() });
            }
            if let Some(Ok(())) = judge!(res, al, name) {
                out.ok = true;
            }
        }
        7 => {
            let v = input.to_vec();
            let (res, al) = guarded(n, || dukenest::nest::Nests::<Ns>::read(&v).map(|_| ()));
            if let Some(Ok(())) = judge!(res, al, name) {
                out.ok = true;
            }
        }
        8..=11 => {
            use duke::tree::descriptor::ReturnDescriptor;
            use duke::tree::field::FieldDescriptor;
            use duke::tree::method::MethodDescriptor;
            use java_string::JavaString;
            let js: JavaString = JavaString::from_semi_utf8_lossy(input).into_owned();
            let (res, al) = guarded(n, || -> bool {
                match op {
                    8 => {
                        // the documented unchecked constructor skips validation only; parse must still be total
                        let d = unsafe { FieldDescriptor::from_inner_unchecked(js.clone()) };
                        match d.parse() {
                            Ok(p) => {
                                let _ = p.write();
                                true
                            }
                            Err(_) => false,
                        }
                    }
                    9 => {
                        let d = unsafe { MethodDescriptor::from_inner_unchecked(js.clone()) };
                        match d.parse() {
                            Ok(p) => {
                                let _ = p.write();
                                true
                            }
                            Err(_) => false,
                        }
                    }
                    10 => {
                        let d = unsafe { ReturnDescriptor::from_inner_unchecked(js.clone()) };
                        match d.parse() {
                            Ok(p) => {
                                let _ = p.write();
                                true
                            }
                            Err(_) => false,
                        }
                    }
                    _ => {
                        let a = FieldDescriptor::try_from(js.clone()).map(|d| d.parse().map(|p| p.write()).is_ok()).unwrap_or(false);
                        let b = MethodDescriptor::try_from(js.clone()).map(|d| d.parse().map(|p| p.write()).is_ok()).unwrap_or(false);
                        let c = ReturnDescriptor::try_from(js.clone()).map(|d| d.parse().map(|p| p.write()).is_ok()).unwrap_or(false);
                        a || b || c
                    }
                }
            });
            if let Some(ok) = judge!(res, al, name) {
                out.ok = ok;
            }
        }
        _ => {}
    }
    (out, vs)
}

// ------------------------------------------------------------------------------------------------
// child

#[derive(Serialize, Deserialize, Clone, Debug)]
struct VLine {
    unit: usize,
    m: usize,
    op: usize,
    class: String,
    path: String,
    detail: String,
    input_len: usize,
}

#[derive(Serialize, Deserialize, Clone, Debug, Default)]
struct ULine {
    unit: usize,
    cases: u64,
    evals: u64,
    distinct: u64,
    ok: BTreeMap<String, u64>,
    err: BTreeMap<String, u64>,
    accepted_damaged: u64,
    writer_runs: u64,
    by_mut: BTreeMap<String, u64>,
    digest: u64,
    seed_digest: u64,
    seed_len: usize,
    kind: String,
    done: bool,
    #[serde(default)]
    ms: u64,
}

fn write_progress(f: &std::fs::File, unit: usize, m: usize, op: usize) {
    let mut b = [0u8; 24];
    b[..8].copy_from_slice(&(unit as u64).to_le_bytes());
    b[8..16].copy_from_slice(&(m as u64).to_le_bytes());
    b[16..].copy_from_slice(&(op as u64).to_le_bytes());
    let _ = f.write_at(&b, 0);
}
fn read_progress(p: &std::path::Path) -> Option<(usize, usize, usize)> {
    let b = std::fs::read(p).ok()?;
    if b.len() < 24 {
        return None;
    }
    let g = |i: usize| u64::from_le_bytes(b[i..i + 8].try_into().unwrap()) as usize;
    Some((g(0), g(8), g(16)))
}

fn tier_of(s: &str) -> Tier {
    if s == "thorough" {
        Tier::Thorough
    } else {
        Tier::Quick
    }
}

fn unit_rng(seed: u64, unit: usize) -> Rng {
    Rng::new(mix(&[seed, crate::rng::label("C16-unit"), unit as u64]))
}

/// `sim c16-child <tier> <seed> <from> <to> <skip_unit> <skip_m> <skip_op> <progress file> <scratch dir>`
/// Runs units from..to; cases before (skip_unit, skip_m, skip_op) are skipped (they ran in a predecessor).
pub fn child_main(args: &[String]) -> i32 {
    if args.len() < 9 {
        eprintln!("harness error: c16-child: bad arguments");
        return 2;
    }
    let tier = tier_of(&args[0]);
    let seed: u64 = args[1].parse().unwrap_or(0);
    let from: usize = args[2].parse().unwrap_or(0);
    let to: usize = args[3].parse().unwrap_or(0);
    let skip: (usize, usize, usize) = (args[4].parse().unwrap_or(0), args[5].parse().unwrap_or(0), args[6].parse().unwrap_or(0));
    let progress = match std::fs::OpenOptions::new().create(true).write(true).truncate(false).open(&args[7]) {
        Ok(f) => f,
        Err(e) => {
            eprintln!("harness error: c16-child: progress file: {e}");
            return 2;
        }
    };
    let scratch = PathBuf::from(&args[8]);
    let all = units(tier, seed);
    // all work happens on one thread with a fixed 8 MiB stack (the size of a Linux main thread), so that
    // "overflows the stack" does not depend on the parent's ulimit
    let h = std::thread::Builder::new().name("c16".into()).stack_size(8 << 20).spawn(move || {
        let stdout = std::io::stdout();
        for unit in from..to.min(all.len()) {
            let t_unit = Instant::now();
            let seedin = realize(&all[unit]);
            let mut r = unit_rng(seed, unit);
            let muts = enumerate(&seedin, tier, &mut r);
            let mut ul = ULine { unit, kind: seedin.kind.name().into(), seed_len: seedin.bytes.len(), seed_digest: fnv(&seedin.bytes), ..Default::default() };
            let mut distinct: HashSet<u64> = HashSet::new();
            let mut dg = Digest::new();
            for (m, mu) in muts.iter().enumerate() {
                if (unit, m) < (skip.0, skip.1) {
                    continue;
                }
                let input = apply(&seedin, mu);
                let d = fnv(&input);
                let nontrivial = input != seedin.bytes;
                ul.cases += 1;
                if nontrivial && distinct.insert(d) {
                    ul.distinct += 1;
                }
                *ul.by_mut.entry(mut_class(&seedin, mu).split(':').next().unwrap_or("").to_string()).or_insert(0) += 1;
                for op in ops_for(seedin.kind, seedin.nns, m) {
                    if (unit, m, op) < skip {
                        continue;
                    }
                    write_progress(&progress, unit, m, op);
                    set_medium(mu);
                    let (o, vs) = run_op(op, &input, &scratch);
                    ul.evals += 1;
                    dg.u64(d);
                    dg.u64(op as u64);
                    dg.u64(o.ok as u64);
                    if o.ok {
                        *ul.ok.entry(OPS[op].into()).or_insert(0) += 1;
                        if nontrivial {
                            ul.accepted_damaged += 1;
                        }
                    } else {
                        *ul.err.entry(OPS[op].into()).or_insert(0) += 1;
                    }
                    if o.wrote {
                        ul.writer_runs += 1;
                    }
                    for v in vs {
                        dg.str(&v.path);
                        let line = VLine { unit, m, op, class: v.class.into(), path: v.path, detail: v.detail.chars().take(600).collect(), input_len: input.len() };
                        let mut so = stdout.lock();
                        let _ = writeln!(so, "V {}", serde_json::to_string(&line).unwrap());
                    }
                }
            }
            ul.digest = dg.0;
            ul.done = true;
            ul.ms = t_unit.elapsed().as_millis() as u64;
            let mut so = stdout.lock();
            let _ = writeln!(so, "U {}", serde_json::to_string(&ul).unwrap());
            let _ = so.flush();
        }
        let mut so = stdout.lock();
        let _ = writeln!(so, "END");
        let _ = so.flush();
    });
    match h {
        Ok(j) => match j.join() {
            Ok(()) => 0,
            Err(_) => 2,
        },
        Err(_) => 2,
    }
}

/// `sim c16-one <replay file>`: one explicit case, in this (sandboxed) process.
pub fn one_main(args: &[String]) -> i32 {
    let Some(path) = args.first() else { return 2 };
    let Ok(s) = std::fs::read_to_string(path) else { return 2 };
    let Ok(v) = serde_json::from_str::<Value>(&s) else { return 2 };
    let Ok(plan) = serde_json::from_value::<Plan>(v["plan"].clone()) else {
        eprintln!("harness error: plan does not deserialize");
        return 2;
    };
    let scratch = std::env::temp_dir();
    let h = std::thread::Builder::new().stack_size(8 << 20).spawn(move || {
        let input = plan.input();
        set_medium(&plan.recipe.mutation);
        let (_o, vs) = run_op(plan.op, &input, &scratch);
        let stdout = std::io::stdout();
        let mut so = stdout.lock();
        for x in vs {
            let line = VLine { unit: 0, m: 0, op: plan.op, class: x.class.into(), path: x.path, detail: x.detail, input_len: input.len() };
            let _ = writeln!(so, "V {}", serde_json::to_string(&line).unwrap());
        }
        let _ = writeln!(so, "END");
    });
    match h.map(|j| j.join()) {
        Ok(Ok(())) => 0,
        _ => 2,
    }
}

// ------------------------------------------------------------------------------------------------
// parent

#[derive(Serialize, Deserialize, Clone, Debug)]
pub struct Plan {
    pub kind: Kind,
    pub op: usize,
    pub op_name: String,
    /// explicit input (hex) when it is small enough; otherwise the recipe regenerates it
    pub input_hex: Option<String>,
    pub recipe: Recipe,
}
#[derive(Serialize, Deserialize, Clone, Debug)]
pub struct Recipe {
    pub unit: UnitSpec,
    pub mutation: Mut,
    pub field: Option<String>,
}
impl Plan {
    fn input(&self) -> Vec<u8> {
        if let Some(h) = &self.input_hex {
            return unhex(h);
        }
        let s = realize(&self.recipe.unit);
        apply(&s, &self.recipe.mutation)
    }
}
fn hex(b: &[u8]) -> String {
    let mut s = String::with_capacity(b.len() * 2);
    for x in b {
        s.push_str(&format!("{x:02x}"));
    }
    s
}
fn unhex(s: &str) -> Vec<u8> {
    (0..s.len() / 2).filter_map(|i| u8::from_str_radix(&s[2 * i..2 * i + 2], 16).ok()).collect()
}

struct ChildResult {
    ulines: Vec<ULine>,
    vlines: Vec<VLine>,
    deaths: u64,
    abandoned: Vec<usize>,
    harness_error: Option<String>,
    /// watchdog expiries that did not repeat when the case was run alone (machine busy): counted, never a verdict
    stalls: u64,
}

/// a unit whose cases kill the child this often is abandoned (every death is still reported)
const MAX_DEATHS_PER_UNIT: u32 = 6;

fn classify_death(status: &std::process::ExitStatus, stderr_tail: &str, timed_out: bool) -> (&'static str, String) {
    if timed_out {
        return ("runaway", "no progress for the watchdog period; child killed".into());
    }
    if stderr_tail.contains("overflowed its stack") {
        return ("stack-overflow", "the child overflowed its 8 MiB stack".into());
    }
    if stderr_tail.contains("memory allocation of") {
        let l = stderr_tail.lines().find(|l| l.contains("memory allocation of")).unwrap_or("");
        return ("abort-alloc", l.trim().to_string());
    }
    match status.signal() {
        Some(24) => ("runaway", "SIGXCPU".into()),
        Some(11) => ("stack-overflow", "SIGSEGV".into()),
        Some(s) => ("abort", format!("child died by signal {s}: {}", stderr_tail.lines().last().unwrap_or(""))),
        None => ("abort", format!("child exit code {:?}: {}", status.code(), stderr_tail.lines().last().unwrap_or(""))),
    }
}

const WATCHDOG: Duration = Duration::from_secs(45);

fn run_child_once(exe: &std::path::Path, argv: &[String], stderr_path: &std::path::Path, progress_path: &std::path::Path) -> (Vec<String>, std::process::ExitStatus, bool) {
    let stderr_file = std::fs::File::create(stderr_path).expect("stderr file");
    // backstops only: CPU seconds and address space of the child
    let script = "ulimit -t 3600; ulimit -v 67108864; ulimit -c 0; exec \"$0\" \"$@\"";
    let mut child = Command::new("sh")
        .arg("-c")
        .arg(script)
        .arg(exe)
        .args(argv)
        .env("RUST_BACKTRACE", "0")
        .stdin(Stdio::null())
        .stdout(Stdio::piped())
        .stderr(Stdio::from(stderr_file))
        .spawn()
        .expect("spawn child");
    let out = child.stdout.take().expect("stdout");
    let (tx, rx) = std::sync::mpsc::channel::<String>();
    let reader = std::thread::spawn(move || {
        for l in std::io::BufReader::new(out).lines().map_while(Result::ok) {
            if tx.send(l).is_err() {
                break;
            }
        }
    });
    let mut lines = vec![];
    let mut last_progress = read_progress(progress_path);
    let mut last_change = Instant::now();
    let mut timed_out = false;
    let status = loop {
        while let Ok(l) = rx.try_recv() {
            lines.push(l);
            last_change = Instant::now();
        }
        match child.try_wait() {
            Ok(Some(st)) => break st,
            Ok(None) => {}
            Err(_) => {}
        }
        let p = read_progress(progress_path);
        if p != last_progress {
            last_progress = p;
            last_change = Instant::now();
        }
        if last_change.elapsed() > WATCHDOG {
            let _ = child.kill();
            timed_out = true;
            break child.wait().expect("wait");
        }
        std::thread::sleep(Duration::from_millis(5));
    };
    let _ = reader.join();
    while let Ok(l) = rx.try_recv() {
        lines.push(l);
    }
    (lines, status, timed_out)
}

fn run_range(exe: &std::path::Path, tier: Tier, seed: u64, from: usize, to: usize, tag: &str, all: &[UnitSpec]) -> ChildResult {
    let shm = if std::path::Path::new("/dev/shm").is_dir() { PathBuf::from("/dev/shm") } else { std::env::temp_dir() };
    let dir = shm.join(format!("verif-c16-{}-{tag}", std::process::id()));
    let _ = std::fs::create_dir_all(&dir);
    let progress = dir.join("progress");
    let stderr_path = dir.join("stderr");
    let mut res = ChildResult { ulines: vec![], vlines: vec![], deaths: 0, abandoned: vec![], harness_error: None, stalls: 0 };
    let mut skip = (from, 0usize, 0usize);
    let mut deaths_in_unit: BTreeMap<usize, u32> = BTreeMap::new();
    loop {
        let _ = std::fs::write(&progress, [0xFFu8; 24]);
        let argv: Vec<String> = vec![
            "c16-child".into(),
            tier.name().into(),
            seed.to_string(),
            from.max(skip.0).to_string(),
            to.to_string(),
            skip.0.to_string(),
            skip.1.to_string(),
            skip.2.to_string(),
            progress.to_string_lossy().to_string(),
            dir.to_string_lossy().to_string(),
        ];
        let (lines, status, timed_out) = run_child_once(exe, &argv, &stderr_path, &progress);
        let mut ended = false;
        for l in &lines {
            if let Some(j) = l.strip_prefix("V ") {
                if let Ok(v) = serde_json::from_str::<VLine>(j) {
                    res.vlines.push(v);
                }
            } else if let Some(j) = l.strip_prefix("U ") {
                if let Ok(u) = serde_json::from_str::<ULine>(j) {
                    res.ulines.push(u);
                }
            } else if l == "END" {
                ended = true;
            }
        }
        if ended && status.success() {
            break;
        }
        // the child died: which case was in flight?
        let tail = std::fs::read_to_string(&stderr_path).unwrap_or_default();
        let tail: String = tail.lines().filter(|l| !l.trim_start().starts_with("at ") && !l.trim_start().chars().next().map(|c| c.is_ascii_digit()).unwrap_or(false)).take(40).collect::<Vec<_>>().join("\n");
        let Some((u, m, op)) = read_progress(&progress).filter(|p| p.0 != usize::MAX) else {
            res.harness_error = Some(format!("child died before its first case ({status:?}): {tail}"));
            break;
        };
        if tail.contains("harness error") || tail.contains("harness panic") {
            res.harness_error = Some(tail);
            break;
        }
        if timed_out {
            // A watchdog expiry is a wall-clock verdict: on a machine that is busy with other work a child can be starved
            // for the whole period (seen in the fourth session: two expiries in a thorough run while three other sweeps
            // shared the machine, neither reproducible). Appendix D: a limit hit is re-run ALONE before it is believed -
            // the one case in a fresh child with a fresh watchdog; only a second expiry (or any other abnormal end) counts.
            let v = VLine { unit: u, m, op, class: String::new(), path: String::new(), detail: String::new(), input_len: 0 };
            let plan = make_plan(all, tier, seed, &v);
            let plan_path = dir.join("confirm-plan.json");
            let file = serde_json::json!({ "property": "C16", "identity": "", "plan": plan });
            if std::fs::write(&plan_path, serde_json::to_string(&file).unwrap_or_default()).is_ok() {
                let _ = std::fs::write(&progress, [0u8; 24]);
                let (lines2, status2, timed_out2) = run_child_once(exe, &["c16-one".to_string(), plan_path.to_string_lossy().to_string()], &stderr_path, &progress);
                let ended2 = lines2.iter().any(|l| l == "END");
                if ended2 && status2.success() && !timed_out2 {
                    // the case ends normally when run alone: its own verdicts (if any) count, the expiry does not
                    for l in &lines2 {
                        if let Some(j) = l.strip_prefix("V ") {
                            if let Ok(mut x) = serde_json::from_str::<VLine>(j) {
                                x.unit = u;
                                x.m = m;
                                x.op = op;
                                res.vlines.push(x);
                            }
                        }
                    }
                    res.stalls += 1;
                    skip = (u, m, op + 1);
                    continue;
                }
            }
        }
        res.deaths += 1;
        *deaths_in_unit.entry(u).or_insert(0u32) += 1;
        let (class, detail) = classify_death(&status, &tail, timed_out);
        // identity of a verdict without source location: operation + coarse mutation class
        let seedin = realize(&all[u]);
        let mut r = unit_rng(seed, u);
        let muts = enumerate(&seedin, tier, &mut r);
        let mc = muts.get(m).map(|mu| mut_class(&seedin, mu)).unwrap_or_default();
        let input_len = muts.get(m).map(|mu| apply(&seedin, mu).len()).unwrap_or(0);
        res.vlines.push(VLine { unit: u, m, op, class: class.into(), path: format!("{}:{}", OPS[op], mc), detail, input_len });
        // units completed before the death were reported through U lines; the unit in flight restarts behind the case,
        // unless it has killed its child too often: then the rest of the unit is abandoned (and said so)
        if deaths_in_unit[&u] >= MAX_DEATHS_PER_UNIT {
            res.abandoned.push(u);
            res.ulines.push(ULine { unit: u, kind: seedin.kind.name().into(), seed_len: seedin.bytes.len(), seed_digest: fnv(&seedin.bytes), done: false, ..Default::default() });
            if u + 1 >= to {
                break;
            }
            skip = (u + 1, 0, 0);
        } else {
            skip = (u, m, op + 1);
        }
    }
    let _ = std::fs::remove_dir_all(&dir);
    res
}

pub struct Args16 {
    pub tier: Tier,
    pub seed: u64,
    pub workers: usize,
    pub evidence: bool,
    pub digest_only: bool,
    pub max_units: Option<usize>,
}

fn make_plan(all: &[UnitSpec], tier: Tier, seed: u64, v: &VLine) -> Plan {
    let seedin = realize(&all[v.unit]);
    let mut r = unit_rng(seed, v.unit);
    let muts = enumerate(&seedin, tier, &mut r);
    let mu = muts.get(v.m).cloned().unwrap_or(Mut::None);
    let input = apply(&seedin, &mu);
    let field = match &mu {
        Mut::Set { span, .. } => seedin.spans.get(*span as usize).map(|s| s.path.clone()),
        _ => None,
    };
    Plan { kind: seedin.kind, op: v.op, op_name: OPS[v.op].into(), input_hex: if input.len() <= 128 * 1024 { Some(hex(&input)) } else { None }, recipe: Recipe { unit: all[v.unit].clone(), mutation: mu, field } }
}

pub fn run(a: &Args16) -> i32 {
    let t0 = Instant::now();
    let exe = std::env::current_exe().expect("current_exe");
    let mut all = units(a.tier, a.seed);
    if let Some(n) = a.max_units {
        all.truncate(n);
    }
    let n = all.len();
    println!("SEED {}", a.seed);
    // ranges: small chunks handed out dynamically; results are merged by unit index, so the outcome does not
    // depend on the worker count
    let chunk = 3usize;
    let next = AtomicUsize::new(0);
    let results: Mutex<Vec<ChildResult>> = Mutex::new(vec![]);
    std::thread::scope(|s| {
        for w in 0..a.workers.max(1) {
            let all = &all;
            let exe = &exe;
            let next = &next;
            let results = &results;
            s.spawn(move || loop {
                let from = next.fetch_add(chunk, Ordering::Relaxed);
                if from >= n {
                    break;
                }
                let to = (from + chunk).min(n);
                let r = run_range(exe, a.tier, a.seed, from, to, &format!("{w}-{from}"), all);
                results.lock().unwrap().push(r);
            });
        }
    });
    let results = results.into_inner().unwrap();
    let mut ulines: BTreeMap<usize, Vec<ULine>> = BTreeMap::new();
    let mut vlines: Vec<VLine> = vec![];
    let mut deaths = 0;
    let mut stalls = 0u64;
    let mut abandoned: Vec<usize> = vec![];
    for r in results {
        if let Some(e) = r.harness_error {
            eprintln!("harness error: {e}");
            return 2;
        }
        for u in r.ulines {
            ulines.entry(u.unit).or_default().push(u);
        }
        vlines.extend(r.vlines);
        deaths += r.deaths;
        stalls += r.stalls;
        abandoned.extend(r.abandoned);
    }
    if ulines.len() != n {
        eprintln!("harness error: {} of {} units reported", ulines.len(), n);
        return 2;
    }
    // ---- aggregate (by unit index)
    let mut evals = 0u64;
    let mut cases = 0u64;
    let mut distinct = 0u64;
    let mut ok: BTreeMap<String, u64> = BTreeMap::new();
    let mut err: BTreeMap<String, u64> = BTreeMap::new();
    let mut by_mut: BTreeMap<String, u64> = BTreeMap::new();
    let mut by_kind: BTreeMap<String, u64> = BTreeMap::new();
    let mut accepted_damaged = 0u64;
    let mut writer_runs = 0u64;
    let mut digest = Digest::new();
    let mut seed_digests: BTreeSet<u64> = BTreeSet::new();
    let mut dup_seeds = 0u64;
    for (_, us) in &ulines {
        // a unit restarted after a death reports once (the U line is printed by the child that finished it), but
        // its counters only cover the cases that child ran; that is accounted as-is (conservative)
        for u in us {
            evals += u.evals;
            cases += u.cases;
            if seed_digests.insert(u.seed_digest) {
                distinct += u.distinct;
            } else {
                dup_seeds += 1;
            }
            for (k, v) in &u.ok {
                *ok.entry(k.clone()).or_insert(0) += v;
            }
            for (k, v) in &u.err {
                *err.entry(k.clone()).or_insert(0) += v;
            }
            for (k, v) in &u.by_mut {
                *by_mut.entry(k.clone()).or_insert(0) += v;
            }
            *by_kind.entry(u.kind.clone()).or_insert(0) += u.cases;
            accepted_damaged += u.accepted_damaged;
            writer_runs += u.writer_runs;
            digest.u64(u.unit as u64);
            digest.u64(u.digest);
        }
    }
    if std::env::var("VERIF_C16_TIMES").is_ok() {
        let mut t: Vec<(u64, usize, u64, usize)> = ulines.values().flatten().map(|u| (u.ms, u.unit, u.evals, u.seed_len)).collect();
        t.sort();
        for (ms, unit, ev, len) in t.iter().rev().take(25) {
            eprintln!("time: unit {unit} {:?} ms={ms} evals={ev} seed_len={len}", all[*unit]);
        }
        let total: u64 = t.iter().map(|x| x.0).sum();
        eprintln!("time: total child ms {total}");
    }
    vlines.sort_by(|x, y| (x.unit, x.m, x.op, &x.path).cmp(&(y.unit, y.m, y.op, &y.path)));
    for v in &vlines {
        digest.u64(v.unit as u64);
        digest.u64(v.m as u64);
        digest.str(&v.path);
    }
    // ---- triage: one witness per identity (the smallest input, ties by position)
    let mut first: BTreeMap<String, (Violation, VLine)> = BTreeMap::new();
    for v in &vlines {
        let viol = Violation::new("T2", &v.class, v.path.clone(), v.detail.clone());
        let id = viol.identity();
        match first.get(&id) {
            Some((_, w)) if (w.input_len, w.unit, w.m) <= (v.input_len, v.unit, v.m) => {}
            _ => {
                first.insert(id, (viol, v.clone()));
            }
        }
    }
    let known = crate::engine::load_known();
    let mut exit = 0;
    let mut new_violations = 0;
    let mut known_lines: BTreeSet<String> = BTreeSet::new();
    let replay_dir = verif_dir().join("replays");
    for (ident, (viol, v)) in &first {
        if let Some(k) = crate::engine::known_match(&known, "C16", viol) {
            known_lines.insert(format!("KNOWN-FINDING: property=C16 {} [{}]", k.what, ident));
            continue;
        }
        if a.digest_only {
            new_violations += 1;
            exit = 1;
            continue;
        }
        let plan = make_plan(&all, a.tier, a.seed, v);
        let _ = std::fs::create_dir_all(&replay_dir);
        let path = replay_dir.join(format!("C16-{}-{}-{:08x}.json", a.seed, v.unit, fnv(ident.as_bytes()) as u32));
        let file = json!({
            "property": "C16", "seed": a.seed, "run": v.unit, "tier": "T2",
            "violation": viol, "identity": ident, "plan": plan,
            "minimisation": "the witness is the smallest input among all cases of this batch with the same identity; one fault (the mutation in plan.recipe) on one seed input",
        });
        if let Err(e) = std::fs::write(&path, serde_json::to_string_pretty(&file).unwrap()) {
            eprintln!("harness error: cannot write replay {}: {e}", path.display());
            return 2;
        }
        println!("VIOLATION property=C16 replay={}", path.display());
        eprintln!("  T2 :: {} :: {} :: {}", viol.class, viol.path, viol.detail.lines().next().unwrap_or(""));
        new_violations += 1;
        exit = 1;
    }
    for l in &known_lines {
        println!("{l}");
    }
    let wall = t0.elapsed().as_secs_f64();
    if a.evidence && !a.digest_only {
        // samples: the first cases of three different kinds
        let mut samples = vec![];
        for want in [Kind::Class, Kind::Tiny, Kind::Enigma] {
            if let Some((ui, spec)) = all.iter().enumerate().find(|(_, s)| realize_kind(s) == want) {
                let seedin = realize(spec);
                let mut r = unit_rng(a.seed, ui);
                let muts = enumerate(&seedin, a.tier, &mut r);
                if let Some(mu) = muts.get(muts.len() / 2) {
                    let input = apply(&seedin, mu);
                    samples.push(json!({"unit": ui, "spec": spec, "seed_len": seedin.bytes.len(), "mutation": mu, "mutated_len": input.len(), "mutated_head_hex": hex(&input[..input.len().min(48)])}));
                }
            }
        }
        let ev = json!({
            "property_id": "C16",
            "tier": a.tier.name(),
            "seed": a.seed,
            "level": "fault_enumeration",
            "coverage": {
                "evaluations": evals,
                "distinct_nontrivial": distinct,
                "rule": "one evaluation = one real parser call on one damaged input, in a sandboxed child. Seed inputs: hand-built self-referential / deeply nested class files, generated class files (refclass encoder with offset map), the javac corpus raw and re-encoded, generated Tiny v2 / tinydiff / Enigma / nests texts, descriptor strings. Per seed input, enumerated completely: truncation at every offset; every u8/u16/u32 field of the offset map set to each boundary value (0, 1, max, max-1, +-1, i16/i32 extremes, rest-of-file, 16 MiB, 256 MiB; constant-pool index fields also to own index, pool count, and every Dynamic/InvokeDynamic/MethodHandle/second-slot index; tag and opcode bytes to a tag set, all 256 values in the thorough tier); per text line: delete, duplicate, swap, indent +-1, each token replaced by each of 30 boundary tokens, a 2-, 3- and 4-byte character inserted at every character boundary. Sampled: bit flips (every bit for inputs <= 160 bytes, thorough: <= 2 KiB), seeded multi-byte edits. distinct = number of distinct damaged inputs (by digest) that differ from their seed input, counted per seed input and summed over pairwise distinct seed inputs.",
                "samples": samples,
                "exhaustive": false,
                "exhaustive_parts": "truncation, field boundary values and line/token edits are enumerated completely per seed input; the seed inputs themselves and the flips/edits are sampled",
                "cases": cases,
                "units": n,
                "cases_by_input_kind": by_kind,
                "cases_by_fault_kind": by_mut,
                "fault_kinds_fired": by_mut,
                "returned_ok_by_operation": ok,
                "returned_err_by_operation": err,
                "damaged_inputs_accepted": accepted_damaged,
                "class_writer_runs_on_accepted_input": writer_runs,
                "child_deaths": deaths,
                "watchdog_expiries_not_repeated_when_run_alone": stalls,
                "units_abandoned_after_repeated_child_deaths": abandoned,
                "duplicate_seed_inputs_not_counted": dup_seeds,
                "runs_per_hour": if wall > 0.0 { (evals as f64 / wall * 3600.0) as u64 } else { 0 },
                "seeds_per_hour": if wall > 0.0 { (n as f64 / wall * 3600.0) as u64 } else { 0 },
                "simulated_time": {"unit": "none: parsers contain no timer; progress is bounded by medium-call fuel and a wall-clock watchdog on the child"},
                "limits": {"stack": "8 MiB (child worker thread)", "allocation": "64 MiB + 1024 x input length live bytes per call (accounted by the harness allocator)", "fuel": "200000 + 64 x input length medium calls", "watchdog_s": WATCHDOG.as_secs()},
                "real_and_stub": {"real": OPS, "stub": ["byte source (SimReader over the damaged bytes)", "tmpfs file for tiny_v2_diff::read_file", "process sandbox (sh ulimit + harness allocator + fixed-size stack)"], "reference": ["refclass encoder offset map (locates fields)", "refmap/refdiff writers (seed texts)"]},
                "batch_digest": format!("{:016x}", digest.0),
                "known_findings_seen": known_lines.len(),
            },
            "assumptions": [
                "a verdict needs the child to return: Ok or Err are both fine; panic, abort, stack overflow at 8 MiB, fuel exhaustion, watchdog expiry, or live allocation beyond 64 MiB + 1024 x input length are violations",
                "the class writer is run on every tree the class reader accepted; only 'does not panic' is required of it",
                "harness profile: opt-level 2 with overflow checks and debug assertions (arithmetic semantics of the repository's test profile)",
            ],
            "wall_s": wall,
            "violations": new_violations,
        });
        let dir = verif_dir().join("evidence");
        let _ = std::fs::create_dir_all(&dir);
        if let Err(e) = std::fs::write(dir.join("C16.json"), serde_json::to_string_pretty(&ev).unwrap()) {
            eprintln!("harness error: cannot write evidence: {e}");
            return 2;
        }
    }
    println!(
        "SUMMARY property=C16 tier={} seed={} units={n} evaluations={evals} distinct_nontrivial={distinct} violations={new_violations} known={} child_deaths={deaths} digest={:016x} wall_s={wall:.1}",
        a.tier.name(),
        a.seed,
        known_lines.len(),
        digest.0
    );
    if a.digest_only {
        println!("DIGEST {:016x}", digest.0);
    }
    exit
}

fn realize_kind(s: &UnitSpec) -> Kind {
    match s {
        UnitSpec::GenClass { .. } | UnitSpec::Corpus { .. } => Kind::Class,
        UnitSpec::Special { name, .. } => {
            if name == "deep-enigma" {
                Kind::Enigma
            } else {
                Kind::Class
            }
        }
        UnitSpec::Text { kind, .. } => *kind,
        UnitSpec::Desc { .. } => Kind::Desc,
    }
}

/// `sim C16 --replay <file>`: the explicit case in a fresh sandboxed child.
pub fn replay(path: &str) -> i32 {
    let Ok(s) = std::fs::read_to_string(path) else {
        eprintln!("harness error: cannot read {path}");
        return 2;
    };
    let Ok(v) = serde_json::from_str::<Value>(&s) else {
        eprintln!("harness error: {path} is not JSON");
        return 2;
    };
    let want = v["identity"].as_str().unwrap_or("").to_string();
    let Ok(plan) = serde_json::from_value::<Plan>(v["plan"].clone()) else {
        eprintln!("harness error: {path}: plan does not deserialize");
        return 2;
    };
    let exe = std::env::current_exe().expect("current_exe");
    let shm = if std::path::Path::new("/dev/shm").is_dir() { PathBuf::from("/dev/shm") } else { std::env::temp_dir() };
    let dir = shm.join(format!("verif-c16-replay-{}", std::process::id()));
    let _ = std::fs::create_dir_all(&dir);
    let progress = dir.join("progress");
    let _ = std::fs::write(&progress, [0u8; 24]);
    let stderr_path = dir.join("stderr");
    let (lines, status, timed_out) = run_child_once(&exe, &["c16-one".to_string(), path.to_string()], &stderr_path, &progress);
    let mut found: Vec<Violation> = vec![];
    let mut ended = false;
    for l in &lines {
        if let Some(j) = l.strip_prefix("V ") {
            if let Ok(x) = serde_json::from_str::<VLine>(j) {
                found.push(Violation::new("T2", &x.class, x.path, x.detail));
            }
        } else if l == "END" {
            ended = true;
        }
    }
    if !(ended && status.success()) {
        let tail = std::fs::read_to_string(&stderr_path).unwrap_or_default();
        let (class, detail) = classify_death(&status, &tail, timed_out);
        // the recorded path of a death carries the mutation class; recompute it from the recipe
        let seedin = realize(&plan.recipe.unit);
        let mc = mut_class(&seedin, &plan.recipe.mutation);
        found.push(Violation::new("T2", class, format!("{}:{}", OPS[plan.op], mc), detail));
    }
    let _ = std::fs::remove_dir_all(&dir);
    let known = crate::engine::load_known();
    let mut hit = false;
    for x in &found {
        eprintln!("  {} :: {} :: {} :: {}", x.tier, x.class, x.path, x.detail.lines().next().unwrap_or(""));
        if x.identity() == want || want.is_empty() {
            hit = true;
            if let Some(k) = crate::engine::known_match(&known, "C16", x) {
                println!("KNOWN-FINDING: property=C16 {} [{}]", k.what, x.identity());
            } else {
                println!("VIOLATION property=C16 replay={path}");
            }
        }
    }
    if hit {
        1
    } else if found.is_empty() {
        println!("REPLAY property=C16 no violation reproduced (recorded identity: {want})");
        0
    } else {
        println!("REPLAY property=C16 different violation than recorded (recorded identity: {want})");
        1
    }
}
