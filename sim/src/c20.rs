//! C20 - `raw_class_file::ClassFile::{read, write, to_bytes, length}` are byte-exact, through simulated media.
//!
//! Workload: class files encoded by the independent reference model (`refclass::encode(gen_class, gen_layout)`,
//! swarm over sizes / feature masks / versions / layouts), the vendored javac corpus (as-is and re-encoded), and
//! raw values: the value the crate read, hand-built values (a minimal class built through the public fields) and
//! hand-mutated values (pool entries appended, attributes built by hand, members removed).
//!
//! Oracle rules are stated in `rule()` / `assumptions()` and next to the code that applies them.

#[path = "c20_corpus.rs"]
mod c20_corpus;
#[path = "c20_golden.rs"]
mod c20_golden;
#[path = "c20_skel.rs"]
mod c20_skel;

use c20_corpus::CORPUS;
use c20_skel::{host, pool_walk_end, skeleton, Attr, Skel};
use crate::engine::*;
use crate::rng::{Digest, Rng};
use crate::simio::*;
use raw_class_file::{AttributeInfo as A, ClassFile, CpInfo, MethodParametersEntry};
use refclass::gen::feat;
use refclass::sem::{Code, Insn, MethodParameter, UnknownAttr};
use refclass::{GenCfg, JStr, Layout, Sem};
use serde::{Deserialize, Serialize};
use serde_json::json;
use std::collections::BTreeSet;
use std::io::Read;

pub struct C20;

// ------------------------------------------------------------------------------------------------ plan

#[derive(Clone, Debug, Serialize, Deserialize, PartialEq)]
#[serde(tag = "kind", rename_all = "snake_case")]
pub enum Base {
    /// `refclass::gen_class(Rng::new(seed), GenCfg{..})` - refclass and the harness PRNG are deterministic
    Gen { seed: u64, max_members: u32, max_insns: u32, features: u32, major_min: u16, major_max: u16 },
    /// a file of corpus/classes, by relative name
    Corpus { name: String },
    /// explicit class-file bytes
    Hex { hex: String },
    /// `class A extends java/lang/Object`, version 52, no members, no attributes
    Minimal,
}

#[derive(Clone, Debug, Serialize, Deserialize, PartialEq)]
#[serde(tag = "cut", rename_all = "snake_case")]
pub enum Cut {
    Fields,
    Methods,
    Interfaces,
    Field { i: usize },
    Method { i: usize },
    /// resets one class-level attribute (key from CLASS_KEYS)
    ClassAttr { k: String },
    /// resets one attribute of method i (key from METHOD_KEYS)
    MethodAttr { i: usize, k: String },
    FieldAttr { i: usize, k: String },
    /// replaces the body of method i by a single `return`, dropping all code-level tables
    TrimCode { i: usize },
}

#[derive(Clone, Debug, Serialize, Deserialize, PartialEq)]
pub struct Source {
    pub base: Base,
    /// Corpus / Hex only: use the bytes as they are (no cuts, no re-encoding)
    pub raw: bool,
    /// seed of `refclass::gen_layout`; None = `Layout::default()`
    pub layout: Option<u64>,
    /// simplifications applied to the semantic class before encoding (shrinker)
    #[serde(default)]
    pub cuts: Vec<Cut>,
}

#[derive(Clone, Debug, Serialize, Deserialize, PartialEq)]
#[serde(tag = "op", rename_all = "snake_case")]
pub enum RawOp {
    /// appends one constant-pool entry (unused: legal, the class stays the same class)
    PushPool { kind: String },
    /// appends a hand-built attribute to the class attributes
    AddClassAttr { kind: String, n: u8 },
    /// appends a hand-built attribute to method 0
    AddMethodAttr { kind: String, n: u8 },
    PopMethod,
    PopField,
    ClearInterfaces,
    PushInterfaceThis,
}

#[derive(Clone, Serialize, Deserialize)]
pub struct Plan {
    pub src: Source,
    /// raw-value experiments start from the hand-built minimal value instead of the value read from `src`
    pub raw_base_minimal: bool,
    pub raw_ops: Vec<RawOp>,
    /// extra bytes after the class on the T1 reader medium (the reader must not touch them)
    pub trailing: u8,
    pub read_io: IoPlan,
    pub write_io: IoPlan,
    /// additionally check hand-built value number i of c20_golden against its hand-written JVMS bytes
    #[serde(default)]
    pub golden: Option<usize>,
}

const POOL_KINDS: [&str; 8] = ["utf8", "integer", "float", "long", "double", "class_this", "string_this", "utf8_max"];
const CLASS_ATTR_KINDS: [&str; 9] = ["Synthetic", "Deprecated", "SourceFile", "Signature", "NestHost", "NestMembers", "PermittedSubclasses", "SourceDebugExtension", "Other"];
const METHOD_ATTR_KINDS: [&str; 4] = ["MethodParameters", "Exceptions", "Synthetic", "Deprecated"];

const CLASS_KEYS: [&str; 16] = [
    "source_file", "source_debug_extension", "inner_classes", "enclosing_method", "signature", "synthetic", "deprecated", "annotations", "type_annotations", "nest_host", "nest_members",
    "permitted_subclasses", "record", "module_packages", "module_main_class", "unknown",
];
const METHOD_KEYS: [&str; 10] = ["exceptions", "method_parameters", "annotation_default", "parameter_annotations", "annotations", "type_annotations", "signature", "synthetic", "deprecated", "unknown"];
const FIELD_KEYS: [&str; 7] = ["constant_value", "signature", "synthetic", "deprecated", "annotations", "type_annotations", "unknown"];

/// JVMS 4.7 predefined attribute names (SE 21); only used to keep violation paths stable
const PREDEFINED: [&str; 30] = [
    "ConstantValue", "Code", "StackMapTable", "Exceptions", "InnerClasses", "EnclosingMethod", "Synthetic", "Signature", "SourceFile", "SourceDebugExtension", "LineNumberTable", "LocalVariableTable",
    "LocalVariableTypeTable", "Deprecated", "RuntimeVisibleAnnotations", "RuntimeInvisibleAnnotations", "RuntimeVisibleParameterAnnotations", "RuntimeInvisibleParameterAnnotations",
    "RuntimeVisibleTypeAnnotations", "RuntimeInvisibleTypeAnnotations", "AnnotationDefault", "BootstrapMethods", "MethodParameters", "Module", "ModulePackages", "ModuleMainClass", "NestHost",
    "NestMembers", "Record", "PermittedSubclasses",
];

fn attr_label(name: &[u8]) -> String {
    match std::str::from_utf8(name) {
        Ok(s) if PREDEFINED.contains(&s) => s.to_string(),
        _ => "<unknown>".into(),
    }
}

/// `Skel::region` with non-predefined attribute names abstracted (they are generated, hence not stable)
fn region(sk: &Skel, off: usize) -> String {
    let r = sk.region(off);
    if let Some(rest) = r.strip_prefix("attr.") {
        if let Some(dot) = rest.rfind('.') {
            let (name, part) = rest.split_at(dot);
            return format!("attr.{}{}", attr_label(name.as_bytes()), part);
        }
    }
    r
}

// ------------------------------------------------------------------------------------------------ building the class

fn hex_encode(b: &[u8]) -> String {
    let mut s = String::with_capacity(b.len() * 2);
    for x in b {
        s.push_str(&format!("{x:02x}"));
    }
    s
}
fn hex_decode(s: &str) -> Result<Vec<u8>, String> {
    let t: Vec<u8> = s.bytes().filter(|c| !c.is_ascii_whitespace()).collect();
    if t.len() % 2 != 0 {
        return Err("odd hex length".into());
    }
    t.chunks(2).map(|p| u8::from_str_radix(std::str::from_utf8(p).map_err(|e| e.to_string())?, 16).map_err(|e| e.to_string())).collect()
}

fn minimal_sem() -> Sem {
    Sem { minor: 0, major: 52, access: 0x0021, this_class: JStr::from_str("A"), super_class: Some(JStr::from_str("java/lang/Object")), ..Sem::default() }
}

/// The hand-built raw value (constructed through the crate's public fields only).
fn minimal_raw() -> ClassFile {
    ClassFile {
        minor_version: 0,
        major_version: 52,
        constant_pool: vec![CpInfo::Class { name_index: 2 }, CpInfo::Utf8 { bytes: b"A".to_vec() }, CpInfo::Class { name_index: 4 }, CpInfo::Utf8 { bytes: b"java/lang/Object".to_vec() }],
        access_flags: 0x0021,
        this_class: 1,
        super_class: 3,
        interfaces: vec![],
        fields: vec![],
        methods: vec![],
        attributes: vec![],
    }
}

fn abstract_method(m: &mut refclass::sem::Method) {
    m.code = None;
    m.access = (m.access & !(0x0002 | 0x0008 | 0x0010 | 0x0020 | 0x0100 | 0x0800)) | 0x0400;
}

/// Applies one simplification; false = not applicable (nothing changed).
fn apply_cut(s: &mut Sem, c: &Cut) -> bool {
    fn opt<T>(o: &mut Option<T>) -> bool {
        o.take().is_some()
    }
    fn flag(b: &mut bool) -> bool {
        std::mem::take(b)
    }
    fn def<T: Default + PartialEq>(v: &mut T) -> bool {
        if *v == T::default() {
            false
        } else {
            *v = T::default();
            true
        }
    }
    match c {
        Cut::Fields => def(&mut s.fields),
        Cut::Methods => def(&mut s.methods),
        Cut::Interfaces => def(&mut s.interfaces),
        Cut::Field { i } => {
            if *i < s.fields.len() {
                s.fields.remove(*i);
                true
            } else {
                false
            }
        }
        Cut::Method { i } => {
            if *i < s.methods.len() {
                s.methods.remove(*i);
                true
            } else {
                false
            }
        }
        Cut::ClassAttr { k } => match k.as_str() {
            "source_file" => opt(&mut s.source_file),
            "source_debug_extension" => opt(&mut s.source_debug_extension),
            "inner_classes" => opt(&mut s.inner_classes),
            "enclosing_method" => opt(&mut s.enclosing_method),
            "signature" => opt(&mut s.signature),
            "synthetic" => flag(&mut s.synthetic),
            "deprecated" => flag(&mut s.deprecated),
            "annotations" => def(&mut s.annotations),
            "type_annotations" => def(&mut s.type_annotations),
            "nest_host" => opt(&mut s.nest_host),
            "nest_members" => opt(&mut s.nest_members),
            "permitted_subclasses" => opt(&mut s.permitted_subclasses),
            "record" => opt(&mut s.record),
            "module_packages" => opt(&mut s.module_packages),
            "module_main_class" => opt(&mut s.module_main_class),
            "unknown" => def(&mut s.unknown),
            _ => false,
        },
        Cut::MethodAttr { i, k } => {
            let Some(m) = s.methods.get_mut(*i) else { return false };
            match k.as_str() {
                "exceptions" => opt(&mut m.exceptions),
                "method_parameters" => opt(&mut m.method_parameters),
                "annotation_default" => opt(&mut m.annotation_default),
                "parameter_annotations" => def(&mut m.parameter_annotations),
                "annotations" => def(&mut m.annotations),
                "type_annotations" => def(&mut m.type_annotations),
                "signature" => opt(&mut m.signature),
                "synthetic" => flag(&mut m.synthetic),
                "deprecated" => flag(&mut m.deprecated),
                "unknown" => def(&mut m.unknown),
                "code" => {
                    if m.code.is_some() {
                        abstract_method(m);
                        true
                    } else {
                        false
                    }
                }
                _ => false,
            }
        }
        Cut::FieldAttr { i, k } => {
            let Some(f) = s.fields.get_mut(*i) else { return false };
            match k.as_str() {
                "constant_value" => opt(&mut f.constant_value),
                "signature" => opt(&mut f.signature),
                "synthetic" => flag(&mut f.synthetic),
                "deprecated" => flag(&mut f.deprecated),
                "annotations" => def(&mut f.annotations),
                "type_annotations" => def(&mut f.type_annotations),
                "unknown" => def(&mut f.unknown),
                _ => false,
            }
        }
        Cut::TrimCode { i } => {
            let Some(m) = s.methods.get_mut(*i) else { return false };
            let Some(c) = m.code.as_mut() else { return false };
            if c.insns.len() <= 1 && c.exceptions.is_empty() && c.line_numbers.is_empty() && c.local_vars.is_empty() && c.frames.is_empty() {
                return false;
            }
            *c = Code { max_stack: c.max_stack, max_locals: c.max_locals, insns: vec![Insn::Simple(0xb1)], ..Code::default() };
            true
        }
    }
}

/// the semantic class a non-raw source denotes, after cuts
fn source_sem(src: &Source) -> Result<Sem, String> {
    let mut sem = match &src.base {
        Base::Gen { seed, max_members, max_insns, features, major_min, major_max } => {
            let cfg = GenCfg { max_members: *max_members as usize, max_insns: *max_insns as usize, features: *features, major_min: *major_min, major_max: *major_max };
            refclass::gen_class(&mut Rng::new(*seed), &cfg)
        }
        Base::Minimal => minimal_sem(),
        Base::Corpus { .. } | Base::Hex { .. } => refclass::parse(&base_bytes(&src.base)?).map_err(|e| format!("base does not parse: {e}"))?,
    };
    for c in &src.cuts {
        apply_cut(&mut sem, c);
    }
    Ok(sem)
}

fn base_bytes(b: &Base) -> Result<Vec<u8>, String> {
    match b {
        Base::Corpus { name } => CORPUS.iter().find(|(n, _)| n == name).map(|(_, b)| b.to_vec()).ok_or_else(|| format!("no corpus file {name}")),
        Base::Hex { hex } => hex_decode(hex),
        _ => Err("not a byte base".into()),
    }
}

/// Class-file bytes of a source. Pure function of the source.
pub fn build(src: &Source) -> Result<Vec<u8>, String> {
    if src.raw && matches!(src.base, Base::Corpus { .. } | Base::Hex { .. }) {
        return base_bytes(&src.base);
    }
    let sem = source_sem(src)?;
    let mut layout = match src.layout {
        None => Layout::default(),
        Some(s) => refclass::gen_layout(&mut Rng::new(s)),
    };
    layout.emit_map = false;
    Ok(refclass::encode(&sem, &layout)?.bytes)
}

// ------------------------------------------------------------------------------------------------ calling the real reader

/// Allocation guard between the medium and `ClassFile::read`.
///
/// `raw_class_file` reads every `Vec<_>` as `Vec::with_capacity(len)` followed by element-wise reads, and three
/// vectors have a u32 length taken from the input (`Code.code`, `SourceDebugExtension.debug_extension`,
/// `Other.info`): a damaged - or merely mis-parsed - file can therefore request up to 4 GiB before a single
/// payload byte is seen; if the allocator refuses, the process aborts, which `no_panic` cannot catch. That
/// defect belongs to totality (C16, sandboxed child). Here the guard keeps the simulation in-process: a 4-byte
/// request issued at or after the end of the constant pool whose big-endian value exceeds the number of bytes the
/// medium still holds is answered with an error instead of being delivered. If that word is a vector length the
/// real outcome could only be `Err` (UnexpectedEof) or an abort, so `Ok`/`Err` is unchanged. If it is an
/// `attribute_length` the crate does not look at, the run is turned into an I/O-error run (coverage lost for
/// *huge* wrong lengths only; small wrong lengths go through). Inside the pool 4-byte words are
/// Integer/Float/Long/Double payloads and are never guarded. A 4-byte request directly after a 4-byte word of
/// value 4 is taken to be a 4-byte payload read in bulk and is not guarded either (robustness against a reader
/// that reads byte vectors with one `read_exact`).
pub struct Guard<'a, R: Read> {
    inner: R,
    data: &'a [u8],
    pos: usize,
    from: usize,
    last_u32_was_4: bool,
    pub fired: bool,
    /// false: everything is passed through (used where a plain read of the same bytes succeeded: the lengths are
    /// consistent there, and a reader that fetches byte vectors in one `read_exact` under a chunking medium issues 4-byte
    /// requests in the middle of payloads, which this heuristic would mistake for length words - the false alarm the
    /// property-preserving change BC20-1 raised)
    pub active: bool,
}
impl<'a, R: Read> Guard<'a, R> {
    pub fn new(inner: R, data: &'a [u8]) -> Self {
        let from = pool_walk_end(data, true).min(pool_walk_end(data, false)).max(10);
        Guard { inner, data, pos: 0, from, last_u32_was_4: false, fired: false, active: true }
    }
}
impl<R: Read> Read for Guard<'_, R> {
    fn read(&mut self, buf: &mut [u8]) -> std::io::Result<usize> {
        if self.active && buf.len() == 4 && self.pos + 4 <= self.data.len() {
            let p = self.pos;
            let v = u32::from_be_bytes([self.data[p], self.data[p + 1], self.data[p + 2], self.data[p + 3]]);
            if p >= self.from && !self.last_u32_was_4 && v as usize > self.data.len() - (p + 4) && !guard_off() {
                self.fired = true;
                return Err(std::io::Error::other(format!("c20 guard: u32 {v} at offset {p} exceeds the {} bytes left on the medium", self.data.len() - (p + 4))));
            }
        }
        let n = self.inner.read(buf)?;
        if buf.len() == 4 && n == 4 {
            self.last_u32_was_4 = buf[..] == [0, 0, 0, 4];
        } else if n > 0 {
            self.last_u32_was_4 = false;
        }
        self.pos += n;
        Ok(n)
    }
}

pub struct ReadOut {
    /// Err(panic message) / Ok(io result)
    pub res: Result<std::io::Result<ClassFile>, String>,
    pub consumed: usize,
    pub guard_fired: bool,
}
impl ReadOut {
    fn ok(&self) -> Option<&ClassFile> {
        match &self.res {
            Ok(Ok(v)) => Some(v),
            _ => None,
        }
    }
    fn code(&self) -> u64 {
        match &self.res {
            Ok(Ok(_)) => 1,
            Ok(Err(_)) => 2,
            Err(_) => 3,
        }
    }
}

/// `ClassFile::read` over a plain in-memory source (T0)
fn read_plain(bytes: &[u8]) -> ReadOut {
    let mut g = Guard::new(bytes, bytes);
    let res = no_panic(|| ClassFile::read(&mut g));
    ReadOut { res, consumed: g.pos, guard_fired: g.fired }
}

fn panic_ident(stage: &str, msg: &str) -> String {
    // "file:line: message" -> stage:file:message-with-digits-abstracted
    let text = msg.splitn(3, ':').nth(2).unwrap_or("").trim();
    let mut t = String::new();
    let mut last_hash = false;
    for c in text.chars().take(48) {
        if c.is_ascii_digit() {
            if !last_hash {
                t.push('#');
            }
            last_hash = true;
        } else {
            last_hash = false;
            t.push(if c.is_ascii_alphanumeric() { c } else { '-' });
        }
    }
    format!("{stage}:{}:{t}", panic_path(msg))
}

fn first_diff(a: &[u8], b: &[u8]) -> usize {
    a.iter().zip(b.iter()).position(|(x, y)| x != y).unwrap_or(a.len().min(b.len()))
}
fn is_prefix(a: &[u8], b: &[u8]) -> bool {
    a.len() <= b.len() && &b[..a.len()] == a
}

// ------------------------------------------------------------------------------------------------ raw value vs skeleton

/// (variant name, attribute_name_index) of an attribute value; nested attribute lists where the variant has them
fn attr_parts(a: &A) -> (&'static str, u16) {
    macro_rules! names {
        ($($v:ident),*) => {
            #[allow(unreachable_patterns)]
            match a {
                $(A::$v { attribute_name_index, .. } => (stringify!($v), *attribute_name_index),)*
                _ => ("<unlisted>", 0),
            }
        };
    }
    names!(
        ConstantValue, Code, StackMapTable, Exceptions, InnerClasses, EnclosingMethod, Synthetic, Signature, SourceFile, SourceDebugExtension, LineNumberTable, LocalVariableTable,
        LocalVariableTypeTable, Deprecated, RuntimeVisibleAnnotations, RuntimeInvisibleAnnotations, RuntimeVisibleParameterAnnotations, RuntimeInvisibleParameterAnnotations, AnnotationDefault,
        BootstrapMethods, MethodParameters, Module, ModulePackages, ModuleMainClass, NestHost, NestMembers, Record, PermittedSubclasses, Other
    )
}

fn cp_tag(c: &CpInfo) -> u8 {
    #[allow(unreachable_patterns)]
    match c {
        CpInfo::Class { .. } => 7,
        CpInfo::Fieldref { .. } => 9,
        CpInfo::Methodref { .. } => 10,
        CpInfo::InterfaceMethodref { .. } => 11,
        CpInfo::String { .. } => 8,
        CpInfo::Integer { .. } => 3,
        CpInfo::Float { .. } => 4,
        CpInfo::Long { .. } => 5,
        CpInfo::Double { .. } => 6,
        CpInfo::NameAndType { .. } => 12,
        CpInfo::Utf8 { .. } => 1,
        CpInfo::MethodHandle { .. } => 15,
        CpInfo::MethodType { .. } => 16,
        CpInfo::Dynamic { .. } => 17,
        CpInfo::InvokeDynamic { .. } => 18,
        CpInfo::Module { .. } => 19,
        CpInfo::Package { .. } => 20,
        _ => 0,
    }
}

fn cmp_attrs(path: &str, got: &[A], want: &[&Attr]) -> Option<(String, String)> {
    if got.len() != want.len() {
        return Some((format!("{path}.attributes.len"), format!("value has {}, the bytes have {}", got.len(), want.len())));
    }
    for (g, w) in got.iter().zip(want.iter()) {
        let (vname, idx) = attr_parts(g);
        if vname == "<unlisted>" {
            continue;
        }
        let label = attr_label(&w.name);
        if idx != w.name_index {
            return Some((format!("{path}.attr.{label}.name_index"), format!("value has {idx}, the bytes have {}", w.name_index)));
        }
        // a modelled variant must be the one the Utf8 name says; `Other` can carry any attribute byte-exactly
        if vname != "Other" && vname.as_bytes() != &w.name[..] {
            return Some((format!("{path}.attr.{label}.variant"), format!("read as {vname}")));
        }
        match g {
            A::Code { attributes, .. } if vname.as_bytes() == &w.name[..] => {
                let nested: Vec<&Attr> = w.nested.iter().collect();
                // the skeleton nests only where JVMS defines Code (on a method); elsewhere there is nothing to compare
                if !nested.is_empty() || attributes.is_empty() {
                    if let Some(d) = cmp_attrs(&format!("{path}.attr.Code"), attributes, &nested) {
                        return Some(d);
                    }
                }
            }
            A::Record { components, .. } if !w.record_components.is_empty() || components.is_empty() => {
                if components.len() != w.record_components.len() {
                    return Some((format!("{path}.attr.Record.components.len"), format!("value has {}, the bytes have {}", components.len(), w.record_components.len())));
                }
                let mut at = 0;
                for (c, (n, d, k)) in components.iter().zip(w.record_components.iter()) {
                    if c.name_index != *n || c.descriptor_index != *d {
                        return Some((format!("{path}.attr.Record.component.header"), "name/descriptor index differs".into()));
                    }
                    let nested: Vec<&Attr> = w.nested[at..at + k].iter().collect();
                    at += k;
                    if let Some(d) = cmp_attrs(&format!("{path}.attr.Record.component"), &c.attributes, &nested) {
                        return Some(d);
                    }
                }
            }
            _ => {}
        }
    }
    None
}

/// Is `v` the index-level representation of the bytes the skeleton was taken from? First difference, if any.
fn cmp_raw(v: &ClassFile, sk: &Skel) -> Option<(String, String)> {
    let d = |p: &str, a: u64, b: u64| if a != b { Some((p.to_string(), format!("value has {a}, the bytes have {b}"))) } else { None };
    if let Some(x) = d("minor_version", v.minor_version as u64, sk.minor as u64) {
        return Some(x);
    }
    if let Some(x) = d("major_version", v.major_version as u64, sk.major as u64) {
        return Some(x);
    }
    if let Some(x) = d("constant_pool.len", v.constant_pool.len() as u64, sk.pool.len() as u64) {
        return Some(x);
    }
    for (c, e) in v.constant_pool.iter().zip(sk.pool.iter()) {
        let t = cp_tag(c);
        if t != 0 && t != e.tag {
            return Some(("constant_pool.tag".into(), format!("entry {}: value has tag {t}, the bytes have {}", e.index, e.tag)));
        }
    }
    if let Some(x) = d("access_flags", v.access_flags as u64, sk.access as u64).or(d("this_class", v.this_class as u64, sk.this_class as u64)).or(d("super_class", v.super_class as u64, sk.super_class as u64)) {
        return Some(x);
    }
    if v.interfaces != sk.interfaces {
        return Some(("interfaces".into(), "differ".into()));
    }
    if let Some(x) = d("fields.len", v.fields.len() as u64, sk.fields.len() as u64).or(d("methods.len", v.methods.len() as u64, sk.methods.len() as u64)) {
        return Some(x);
    }
    for (f, m) in v.fields.iter().zip(sk.fields.iter()) {
        if (f.access_flags, f.name_index, f.descriptor_index) != (m.access, m.name, m.desc) {
            return Some(("field.header".into(), "differs".into()));
        }
        let want: Vec<&Attr> = m.attrs.iter().collect();
        if let Some(x) = cmp_attrs("field", &f.attributes, &want) {
            return Some(x);
        }
    }
    for (f, m) in v.methods.iter().zip(sk.methods.iter()) {
        if (f.access_flags, f.name_index, f.descriptor_index) != (m.access, m.name, m.desc) {
            return Some(("method.header".into(), "differs".into()));
        }
        let want: Vec<&Attr> = m.attrs.iter().collect();
        if let Some(x) = cmp_attrs("method", &f.attributes, &want) {
            return Some(x);
        }
    }
    let want: Vec<&Attr> = sk.attrs.iter().collect();
    cmp_attrs("class", &v.attributes, &want)
}

// ------------------------------------------------------------------------------------------------ diagnosis of a refusal

/// does the reader under test accept these bytes, consume exactly them, and return their index-level structure?
/// (byte-exact rewriting is not asked here: that is judged separately and named by the differing region)
fn probe_ok(bytes: &[u8]) -> bool {
    let r = read_plain(bytes);
    match (r.ok(), skeleton(bytes)) {
        (Some(v), Ok(sk)) => r.consumed == bytes.len() && cmp_raw(v, &sk).is_none(),
        _ => false,
    }
}

/// Names the cause(s) of a refusal by re-hosting the pool alone, then every attribute alone, in a minimal class.
fn diagnose(bytes: &[u8], sk: &Skel, st: &mut RunStats) -> Vec<String> {
    st.probe("diagnose.runs");
    if !probe_ok(&host(bytes, sk, None)) {
        return vec![if sk.has_wide() { "read.pool.long-double".into() } else { "read.pool".into() }];
    }
    fn rec(bytes: &[u8], sk: &Skel, a: &Attr, bad: &mut BTreeSet<String>) -> bool {
        let mut nested_bad = false;
        for n in &a.nested {
            nested_bad |= rec(bytes, sk, n, bad);
        }
        if probe_ok(&host(bytes, sk, Some(a))) {
            return false;
        }
        if !nested_bad {
            bad.insert(format!("read.attr.{}", attr_label(&a.name)));
        }
        true
    }
    let mut bad = BTreeSet::new();
    for m in sk.fields.iter().chain(sk.methods.iter()) {
        for a in &m.attrs {
            rec(bytes, sk, a, &mut bad);
        }
    }
    for a in &sk.attrs {
        rec(bytes, sk, a, &mut bad);
    }
    if bad.is_empty() {
        vec!["read.unexplained".into()]
    } else {
        bad.into_iter().collect()
    }
}

// ------------------------------------------------------------------------------------------------ raw-value experiments

fn utf8_index_of_class(v: &ClassFile, class_index: u16) -> Option<u16> {
    match v.constant_pool.get(class_index.checked_sub(1)? as usize)? {
        CpInfo::Class { name_index } => Some(*name_index),
        _ => None,
    }
}
fn push_pool(v: &mut ClassFile, c: CpInfo) -> u16 {
    v.constant_pool.push(c);
    v.constant_pool.len() as u16
}
fn push_utf8(v: &mut ClassFile, s: &[u8]) -> u16 {
    push_pool(v, CpInfo::Utf8 { bytes: s.to_vec() })
}
fn has_variant(attrs: &[A], name: &str) -> bool {
    attrs.iter().any(|a| attr_parts(a).0 == name)
}

/// Applies one edit to the raw value and the matching edit to the expected semantic class.
/// `Err(reason)`: precondition not met, nothing changed.
fn apply_raw_op(v: &mut ClassFile, s: &mut Sem, op: &RawOp) -> Result<String, &'static str> {
    if v.constant_pool.iter().any(|c| matches!(c, CpInfo::Long { .. } | CpInfo::Double { .. })) {
        return Err("pool already holds long/double: index arithmetic of the raw representation is off");
    }
    if v.constant_pool.len() > 60_000 {
        return Err("pool nearly full");
    }
    let this = v.this_class;
    let this_name = s.this_class.clone();
    match op {
        RawOp::PushPool { kind } => {
            let this_utf8 = utf8_index_of_class(v, this).ok_or("this_class is not a Class entry")?;
            let c = match kind.as_str() {
                "utf8" => CpInfo::Utf8 { bytes: b"c20$extra".to_vec() },
                // the longest string a u2 length can announce (a list that fills its count field exactly: missed seeded
                // change C20-15, `len >= MAX` refused)
                "utf8_max" => CpInfo::Utf8 { bytes: vec![b'u'; 65_535] },
                "integer" => CpInfo::Integer { bytes: 0x8000_0001 },
                "float" => CpInfo::Float { bytes: 0x7fc0_0001 },
                "long" => CpInfo::Long { high_bytes: 0x0123_4567, low_bytes: 0x89ab_cdef },
                "double" => CpInfo::Double { high_bytes: 0x4009_21fb, low_bytes: 0x5444_2d18 },
                "class_this" => CpInfo::Class { name_index: this_utf8 },
                "string_this" => CpInfo::String { string_index: this_utf8 },
                _ => return Err("unknown pool kind"),
            };
            push_pool(v, c);
            Ok(format!("push-pool-{kind}"))
        }
        RawOp::AddClassAttr { kind, n } => {
            let n = *n as usize % 4;
            if kind != "Other" && has_variant(&v.attributes, kind) {
                return Err("attribute already present");
            }
            match kind.as_str() {
                "Synthetic" => {
                    if s.synthetic {
                        return Err("present");
                    }
                    let i = push_utf8(v, b"Synthetic");
                    v.attributes.push(A::Synthetic { attribute_name_index: i });
                    s.synthetic = true;
                }
                "Deprecated" => {
                    if s.deprecated {
                        return Err("present");
                    }
                    let i = push_utf8(v, b"Deprecated");
                    v.attributes.push(A::Deprecated { attribute_name_index: i });
                    s.deprecated = true;
                }
                "SourceFile" => {
                    if s.source_file.is_some() {
                        return Err("present");
                    }
                    let i = push_utf8(v, b"SourceFile");
                    let f = push_utf8(v, b"C20.java");
                    v.attributes.push(A::SourceFile { attribute_name_index: i, sourcefile_index: f });
                    s.source_file = Some(JStr::from_str("C20.java"));
                }
                "Signature" => {
                    if s.signature.is_some() {
                        return Err("present");
                    }
                    let i = push_utf8(v, b"Signature");
                    let f = push_utf8(v, b"Ljava/lang/Object;");
                    v.attributes.push(A::Signature { attribute_name_index: i, signature_index: f });
                    s.signature = Some(JStr::from_str("Ljava/lang/Object;"));
                }
                "NestHost" => {
                    if s.nest_host.is_some() || s.nest_members.is_some() {
                        return Err("present");
                    }
                    let i = push_utf8(v, b"NestHost");
                    v.attributes.push(A::NestHost { attribute_name_index: i, host_class_index: this });
                    s.nest_host = Some(this_name);
                }
                "NestMembers" => {
                    if s.nest_host.is_some() || s.nest_members.is_some() {
                        return Err("present");
                    }
                    let i = push_utf8(v, b"NestMembers");
                    v.attributes.push(A::NestMembers { attribute_name_index: i, classes: vec![this; n] });
                    s.nest_members = Some(vec![this_name; n]);
                }
                "PermittedSubclasses" => {
                    if s.permitted_subclasses.is_some() {
                        return Err("present");
                    }
                    let i = push_utf8(v, b"PermittedSubclasses");
                    v.attributes.push(A::PermittedSubclasses { attribute_name_index: i, classes: vec![this; n] });
                    s.permitted_subclasses = Some(vec![this_name; n]);
                }
                "SourceDebugExtension" => {
                    if s.source_debug_extension.is_some() {
                        return Err("present");
                    }
                    let i = push_utf8(v, b"SourceDebugExtension");
                    let b: Vec<u8> = (0..n as u8 * 3).map(|x| x.wrapping_mul(37)).collect();
                    v.attributes.push(A::SourceDebugExtension { attribute_name_index: i, debug_extension: b.clone() });
                    s.source_debug_extension = Some(b);
                }
                "Other" => {
                    let i = push_utf8(v, b"x.c20");
                    let b: Vec<u8> = (0..n as u8 * 5).map(|x| x.wrapping_mul(91) ^ 0xA5).collect();
                    v.attributes.push(A::Other { attribute_name_index: i, info: b.clone() });
                    s.unknown.push(UnknownAttr { name: JStr::from_str("x.c20"), bytes: b });
                }
                _ => return Err("unknown class attribute kind"),
            }
            Ok(format!("add-{kind}"))
        }
        RawOp::AddMethodAttr { kind, n } => {
            let n = *n as usize % 4;
            if v.methods.is_empty() || s.methods.is_empty() {
                return Err("no method");
            }
            if has_variant(&v.methods[0].attributes, kind) {
                return Err("attribute already present");
            }
            match kind.as_str() {
                "MethodParameters" => {
                    if s.methods[0].method_parameters.is_some() {
                        return Err("present");
                    }
                    let i = push_utf8(v, b"MethodParameters");
                    let p = push_utf8(v, b"p");
                    let mut ps = vec![];
                    let mut sem_ps = vec![];
                    // 3 stands for the most a u1 count can announce
                    let n = if n == 3 { 255 } else { n };
                    for k in 0..n {
                        let named = k % 2 == 0;
                        ps.push(MethodParametersEntry { name_index: if named { p } else { 0 }, access_flags: 0x0010 });
                        sem_ps.push(MethodParameter { name: if named { Some(JStr::from_str("p")) } else { None }, access: 0x0010 });
                    }
                    v.methods[0].attributes.push(A::MethodParameters { attribute_name_index: i, parameters: ps });
                    s.methods[0].method_parameters = Some(sem_ps);
                }
                "Exceptions" => {
                    if s.methods[0].exceptions.is_some() {
                        return Err("present");
                    }
                    let i = push_utf8(v, b"Exceptions");
                    v.methods[0].attributes.push(A::Exceptions { attribute_name_index: i, exception_index_table: vec![this; n] });
                    s.methods[0].exceptions = Some(vec![this_name; n]);
                }
                "Synthetic" => {
                    if s.methods[0].synthetic {
                        return Err("present");
                    }
                    let i = push_utf8(v, b"Synthetic");
                    v.methods[0].attributes.push(A::Synthetic { attribute_name_index: i });
                    s.methods[0].synthetic = true;
                }
                "Deprecated" => {
                    if s.methods[0].deprecated {
                        return Err("present");
                    }
                    let i = push_utf8(v, b"Deprecated");
                    v.methods[0].attributes.push(A::Deprecated { attribute_name_index: i });
                    s.methods[0].deprecated = true;
                }
                _ => return Err("unknown method attribute kind"),
            }
            Ok(format!("add-method-{kind}"))
        }
        RawOp::PopMethod => {
            if v.methods.is_empty() || s.methods.len() != v.methods.len() {
                return Err("no method");
            }
            v.methods.pop();
            s.methods.pop();
            Ok("pop-method".into())
        }
        RawOp::PopField => {
            if v.fields.is_empty() || s.fields.len() != v.fields.len() {
                return Err("no field");
            }
            v.fields.pop();
            s.fields.pop();
            Ok("pop-field".into())
        }
        RawOp::ClearInterfaces => {
            if v.interfaces.is_empty() {
                return Err("no interface");
            }
            v.interfaces.clear();
            s.interfaces.clear();
            Ok("clear-interfaces".into())
        }
        RawOp::PushInterfaceThis => {
            v.interfaces.push(this);
            s.interfaces.push(this_name);
            Ok("push-interface".into())
        }
    }
}

fn duke_read(bytes: &[u8]) -> Result<Result<duke::tree::class::ClassFile, String>, String> {
    no_panic(|| duke::read_class(&mut std::io::Cursor::new(bytes)).map_err(|e| format!("{e:#}")))
}

/// The checks every raw value must pass: `length` == bytes written, `write` == `to_bytes`, `read(to_bytes(v)) == v`.
/// Returns the bytes, or None when a panic made further checks pointless.
fn check_value(tier: &str, stage: &str, v: &ClassFile, out: &mut Vec<Violation>, obs: &mut Digest) -> Option<Vec<u8>> {
    let bytes = match no_panic(|| v.to_bytes()) {
        Ok(b) => b,
        Err(pm) => {
            out.push(Violation::new(tier, "panic", panic_ident(&format!("{stage}.to_bytes"), &pm), pm));
            return None;
        }
    };
    obs.bytes(&bytes);
    match no_panic(|| v.length()) {
        Ok(l) => {
            if l != bytes.len() {
                out.push(Violation::new(tier, "invalid-output", format!("{stage}.length"), format!("length() = {l}, to_bytes() wrote {} bytes", bytes.len())));
            }
        }
        Err(pm) => out.push(Violation::new(tier, "panic", panic_ident(&format!("{stage}.length"), &pm), pm)),
    }
    let mut sink = Vec::new();
    match no_panic(|| v.write(&mut sink)) {
        Ok(Ok(())) => {
            if sink != bytes {
                out.push(Violation::new(tier, "nondeterministic-output", format!("{stage}.write-vs-to_bytes"), format!("first difference at byte {}", first_diff(&sink, &bytes))));
            }
        }
        Ok(Err(e)) => out.push(Violation::new(tier, "invalid-output", format!("{stage}.write-to-vec"), format!("write into a Vec failed: {e}"))),
        Err(pm) => out.push(Violation::new(tier, "panic", panic_ident(&format!("{stage}.write"), &pm), pm)),
    }
    let rr = read_plain(&bytes);
    match &rr.res {
        Ok(Ok(v2)) => {
            if v2 != v {
                out.push(Violation::new(tier, "semantic-mismatch", format!("{stage}.reread.value"), "read(to_bytes(v)) != v".to_string()));
            } else if rr.consumed != bytes.len() {
                out.push(Violation::new(tier, "stream-position", format!("{stage}.reread.consumed"), format!("consumed {} of {}", rr.consumed, bytes.len())));
            }
        }
        Ok(Err(e)) => out.push(Violation::new(tier, "semantic-mismatch", format!("{stage}.reread.err"), format!("read(to_bytes(v)) failed: {e}"))),
        Err(pm) => out.push(Violation::new(tier, "panic", panic_ident(&format!("{stage}.reread"), pm), pm.clone())),
    }
    Some(bytes)
}

// ------------------------------------------------------------------------------------------------ the engine

fn pick_features(w: &mut Rng) -> u32 {
    match w.below(10) {
        0 | 1 => feat::ALL,
        // calm: no code, annotations, misc attributes, indy/condy -> few long/double constants, no MethodParameters
        2 | 3 => {
            let mut f = 0;
            for b in [feat::UNKNOWN_ATTRS, feat::UNICODE, feat::SIGNATURES, feat::INNER, feat::NEST, feat::PERMITTED, feat::RECORD, feat::MODULE, feat::TYPE_ANNOTATIONS] {
                if w.chance(50) {
                    f |= b;
                }
            }
            f
        }
        // code without the attribute zoo
        4 => feat::CODE | feat::FRAMES | feat::SWITCHES | feat::EXCEPTION_TABLE | feat::DEBUG_TABLES | feat::WIDE_LOCALS | if w.chance(50) { feat::JSR } else { 0 },
        _ => {
            let mut f = 0;
            for bit in 0..20 {
                if w.chance(50) {
                    f |= 1 << bit;
                }
            }
            f
        }
    }
}

fn gen_source(w: &mut Rng, tier: Tier) -> Source {
    let r = w.below(100);
    if r < 20 {
        return Source { base: Base::Corpus { name: w.pick(CORPUS).0.to_string() }, raw: true, layout: None, cuts: vec![] };
    }
    if r < 24 {
        return Source { base: Base::Corpus { name: w.pick(CORPUS).0.to_string() }, raw: false, layout: Some(w.next()), cuts: vec![] };
    }
    if r < 26 {
        return Source { base: Base::Minimal, raw: false, layout: if w.chance(50) { Some(w.next()) } else { None }, cuts: vec![] };
    }
    let size = w.below(20);
    let (max_members, max_insns) = match size {
        0..=8 => (2, 12),
        9..=17 => (4, 40),
        _ => (8, if tier == Tier::Thorough { 400 } else { 150 }),
    };
    let features = pick_features(w);
    let (major_min, major_max) = match w.below(4) {
        0 => (45, 67),
        1 => (61, 67),
        2 => (52, 60),
        _ => {
            let lo = w.range(45, 67) as u16;
            (lo, w.range(lo as u64, 67) as u16)
        }
    };
    let layout = if w.chance(80) { Some(w.next()) } else { None };
    // Most generated classes are drawn until they avoid the structures `read` is known to refuse (a pool with a
    // two-slot entry; a MethodParameters attribute), so that the rest of the crate is exercised; the criteria are
    // structural (taken from the skeleton of the bytes), never the behaviour of the code under test.
    let avoid = match w.below(20) {
        0..=8 => (true, true),
        9..=11 => (true, false),
        12 => (false, true),
        _ => (false, false),
    };
    let mut src = Source { base: Base::Minimal, raw: false, layout, cuts: vec![] };
    for _ in 0..10 {
        src.base = Base::Gen { seed: w.next(), max_members, max_insns, features, major_min, major_max };
        if avoid == (false, false) {
            break;
        }
        match build(&src).ok().and_then(|b| skeleton(&b).ok()) {
            Some(sk) if (avoid.0 && sk.has_wide()) || (avoid.1 && sk.all_attrs().iter().any(|a| a.name == b"MethodParameters")) => continue,
            _ => break,
        }
    }
    src
}

fn gen_raw_op(m: &mut Rng) -> RawOp {
    match m.below(12) {
        0..=3 => RawOp::PushPool { kind: m.pick(&POOL_KINDS).to_string() },
        4..=6 => RawOp::AddClassAttr { kind: m.pick(&CLASS_ATTR_KINDS).to_string(), n: m.below(4) as u8 },
        7 | 8 => RawOp::AddMethodAttr { kind: m.pick(&METHOD_ATTR_KINDS).to_string(), n: m.below(4) as u8 },
        9 => {
            if m.chance(50) {
                RawOp::PopMethod
            } else {
                RawOp::PopField
            }
        }
        10 => RawOp::ClearInterfaces,
        _ => RawOp::PushInterfaceThis,
    }
}

/// an offset aimed at a structure of the class
fn aimed_offset(f: &mut Rng, sk: &Skel, len: u64) -> u64 {
    let attrs = sk.all_attrs();
    match f.below(8) {
        0 => f.range(10, sk.pool_end.max(11) as u64 - 1),                                   // inside the pool
        1 if !attrs.is_empty() => {
            let a = f.pick(&attrs);
            f.range(a.off as u64 + 6, (a.end as u64).max(a.off as u64 + 7) - 1).min(len.saturating_sub(1)) // attribute body
        }
        2 if !attrs.is_empty() => f.pick(&attrs).off as u64 + f.range(2, 5),                 // an attribute_length field
        3 if !attrs.is_empty() => f.pick(&attrs).off as u64 + f.below(2),                    // an attribute name index
        4 => len.saturating_sub(1 + f.below(8)),                                             // the last bytes
        5 => *f.pick(&[8u64, 9, sk.interfaces_off as u64, sk.fields_off as u64, sk.methods_off as u64, sk.attrs_off as u64]) + f.below(2), // a count
        6 => sk.pool_end as u64 + f.below(6),                                                // access / this / super
        _ => f.below(len.max(1)),
    }
}

/// Shrinker aid: when the class changes, byte-offset reader faults are moved to the same structure (same region
/// name, same distance from its first byte) of the new class, if it still has one.
fn reaim(old: &[u8], new: &[u8], io: &IoPlan) -> IoPlan {
    let mut out = io.clone();
    if !io.faults.iter().any(|f| matches!(f, Fault::Flip { .. } | Fault::Eof { .. } | Fault::EioAtOffset { .. })) {
        return out;
    }
    let (Ok(a), Ok(b)) = (skeleton(old), skeleton(new)) else { return out };
    let mv = |off: u64| -> u64 {
        let off = off as usize;
        if off >= old.len() {
            return new.len() as u64;
        }
        let r = region(&a, off);
        let mut start = off;
        while start > 0 && region(&a, start - 1) == r {
            start -= 1;
        }
        match (0..new.len()).find(|&i| region(&b, i) == r) {
            Some(i) if i + (off - start) < new.len() && region(&b, i + (off - start)) == r => (i + (off - start)) as u64,
            Some(i) => i as u64,
            None => off.min(new.len().saturating_sub(1)) as u64,
        }
    };
    for f in &mut out.faults {
        match f {
            Fault::Flip { off, .. } | Fault::EioAtOffset { off } => *off = mv(*off),
            Fault::Eof { at } => *at = mv(*at),
            _ => {}
        }
    }
    out
}

impl Engine for C20 {
    type Plan = Plan;
    fn id(&self) -> &'static str {
        "C20"
    }
    fn runs(&self, tier: Tier) -> u64 {
        match tier {
            Tier::Quick => 300_000,
            Tier::Thorough => 6_000_000,
        }
    }

    fn gen(&self, rng: &mut Rng, tier: Tier, _run: u64) -> Plan {
        let mut w = rng.split("workload");
        let mut s = rng.split("schedule");
        let mut f = rng.split("faults");
        let mut m = rng.split("rawops");
        let src = gen_source(&mut w, tier);
        let mut p = Plan { src, raw_base_minimal: false, raw_ops: vec![], trailing: 0, read_io: IoPlan::plain(), write_io: IoPlan::plain(), golden: None };
        if m.chance(4) {
            p.golden = Some(m.usize(c20_golden::COUNT));
        }
        if m.chance(50) {
            p.raw_base_minimal = m.chance(15);
            for _ in 0..m.range(1, 3) {
                p.raw_ops.push(gen_raw_op(&mut m));
            }
        }
        if s.chance(65) {
            p.read_io = IoPlan::gen_legal(&mut s);
        }
        if s.chance(65) {
            p.write_io = IoPlan::gen_legal(&mut s);
        }
        if s.chance(50) {
            p.trailing = s.range(1, 9) as u8;
        }
        // faults are aimed with the skeleton of the class the plan denotes
        let bytes = build(&p.src).unwrap_or_default();
        let len = bytes.len() as u64;
        if let Ok(sk) = skeleton(&bytes) {
            if f.chance(36) {
                for _ in 0..f.range(1, 2) {
                    let at = aimed_offset(&mut f, &sk, len).min(len);
                    let fault = match f.below(8) {
                        0 | 1 => Fault::Eof { at: at.min(len.saturating_sub(1)) },
                        2..=4 => Fault::Flip { off: at.min(len.saturating_sub(1)), bit: f.below(8) as u8 },
                        5 => Fault::Eio { at_call: f.below(len * 2 / 3 + 1) as u32, sticky: f.chance(50) },
                        _ => Fault::EioAtOffset { off: at },
                    };
                    p.read_io.faults.push(fault);
                }
                p.trailing = 0;
            }
            if f.chance(36) {
                for _ in 0..f.range(1, 2) {
                    let at = match f.below(7) {
                        0 => 4,                                                  // after the magic
                        1 => f.range(10, sk.pool_end.max(11) as u64 - 1),        // mid-pool
                        2 => (sk.pool_end as u64 + f.below(3)).saturating_sub(1), // pool / body border
                        3 => len.saturating_sub(1),                              // the last byte
                        4 => 0,
                        _ => f.below(len + 1),
                    };
                    let fault = match f.below(6) {
                        0..=2 => Fault::Enospc { after_bytes: at },
                        3 => Fault::WriteEio { at_call: f.below(len * 2 / 3 + 1) as u32, sticky: f.chance(70) },
                        4 => Fault::WriteZero { at_call: f.below(len * 2 / 3 + 1) as u32 },
                        _ => Fault::FlushErr,
                    };
                    p.write_io.faults.push(fault);
                }
            }
        }
        p
    }

    fn exec(&self, p: &Plan, st: &mut RunStats) -> Vec<Violation> {
        let mut out = vec![];
        let mut obs = Digest::new();

        // ---------------- the input class: must be well-formed by the reference validator, else the run is void
        let bytes = match build(&p.src) {
            Ok(b) => b,
            Err(_) => {
                st.probe("void.source-does-not-build");
                return out;
            }
        };
        if refclass::validate(&bytes).is_err() {
            st.probe("void.input-not-wellformed");
            return out;
        }
        let sem_in = refclass::parse(&bytes).expect("validate ok implies parse ok");
        let sk = skeleton(&bytes).expect("harness: skeleton walker rejects a class the reference validator accepts");
        assert_eq!(sk.end, bytes.len(), "harness: skeleton length");
        obs.bytes(&bytes);
        {
            let mut sh = Digest::new();
            sh.u64(sk.pool.len() as u64 / 8);
            sh.u64(sk.fields.len() as u64);
            sh.u64(sk.methods.len() as u64);
            let names: BTreeSet<String> = sk.all_attrs().iter().map(|a| attr_label(&a.name)).collect();
            for n in &names {
                sh.str(n);
                st.probe(attr_probe(n));
            }
            sh.u64(sk.has_wide() as u64);
            sh.u64(sk.major as u64);
            st.shape = sh.0;
        }
        match &p.src.base {
            Base::Corpus { .. } if p.src.raw => st.probe("src.corpus-raw"),
            Base::Corpus { .. } => st.probe("src.corpus-reencoded"),
            Base::Gen { .. } => st.probe("src.generated"),
            _ => st.probe("src.minimal-or-hex"),
        }
        if sk.has_wide() {
            st.probe("input.pool-has-long-double");
        } else {
            st.probe("input.pool-without-long-double");
        }

        // ---------------- T0: plain medium
        st.tier("T0");
        let r0 = read_plain(&bytes);
        obs.u64(r0.code());
        let mut t0_clean = false; // read Ok and rewritten byte for byte
        let mut t0_bytes: Option<Vec<u8>> = None;
        match &r0.res {
            Err(pm) => {
                // a panic on a well-formed file: name the panic site and the structure that leads there
                st.probe("t0.read-panicked");
                for cause in diagnose(&bytes, &sk, st) {
                    out.push(Violation::new("T0", "panic", format!("{}@{cause}", panic_ident("read", pm)), pm.clone()));
                }
            }
            Ok(Err(e)) => {
                st.probe("t0.read-refused");
                if r0.guard_fired {
                    st.probe("guard.fired-on-wellformed-input");
                }
                for cause in diagnose(&bytes, &sk, st) {
                    out.push(Violation::new("T0", "refused-wellformed", cause, format!("read failed on a class the reference validator accepts: {e}")));
                }
            }
            Ok(Ok(v)) => {
                st.probe("t0.read-ok");
                // is the value the index-level representation of these bytes? (read and write are derived from one
                // field list, so a consistent mis-parse would survive every byte comparison)
                let misparse = if r0.consumed != bytes.len() {
                    Some(format!("consumed {} of {} bytes", r0.consumed, bytes.len()))
                } else {
                    cmp_raw(v, &sk).map(|(path, d)| format!("{path}: {d}"))
                };
                if let Some(d) = misparse {
                    st.probe("t0.read-ok-but-misparsed");
                    for cause in diagnose(&bytes, &sk, st) {
                        out.push(Violation::new("T0", "semantic-mismatch", format!("read.misparsed@{cause}"), format!("read returned Ok with a value that is not the structure of the input: {d}")));
                    }
                } else
                if let Some(o) = check_value("T0", "value", v, &mut out, &mut obs) {
                    if debug() {
                        eprintln!("input  {}\noutput {}", hex_encode(&bytes), hex_encode(&o));
                    }
                    if o == bytes {
                        t0_clean = true;
                        st.probe("t0.rewrite-byte-exact");
                        let names: BTreeSet<String> = sk.all_attrs().iter().map(|a| attr_label(&a.name)).collect();
                        for n in &names {
                            st.probe(ok_attr_probe(n));
                        }
                    } else {
                        let at = first_diff(&o, &bytes);
                        out.push(Violation::new(
                            "T0",
                            "invalid-output",
                            format!("rewrite.bytes@{}", region(&sk, at)),
                            format!("to_bytes(read(b)) != b: first difference at byte {at} (input {:02x?}, output {:02x?}); lengths {} vs {}", bytes.get(at), o.get(at), bytes.len(), o.len()),
                        ));
                        // what other readers see in the rewritten file
                        match refclass::parse(&o) {
                            Err(e) => out.push(Violation::new("T0", "invalid-output", format!("rewrite.unparsable@{}", region(&sk, at)), format!("the rewritten file does not parse: {e}"))),
                            Ok(sem_out) => {
                                if let Some(d) = sem_in.diff(&sem_out) {
                                    out.push(Violation::new("T0", "semantic-mismatch", format!("rewrite.{d}"), "the rewritten file denotes a different class".to_string()));
                                } else if let Err(ps) = refclass::validate(&o) {
                                    out.push(Violation::new("T0", "invalid-output", format!("rewrite.validate:{}", refclass::validate::prefix(&ps[0])), ps[0].clone()));
                                }
                                // cross-read by duke: same Ok/Err-ness, same tree
                                st.probe("duke.cross-read");
                                match (duke_read(&bytes), duke_read(&o)) {
                                    (Ok(a), Ok(b)) => {
                                        if a.is_ok() != b.is_ok() {
                                            out.push(Violation::new("T0", "semantic-mismatch", "rewrite.duke.result", format!("duke::read_class: input {:?}, rewritten {:?}", a.as_ref().err(), b.as_ref().err())));
                                        } else if let (Ok(a), Ok(b)) = (a, b) {
                                            if format!("{a:?}") != format!("{b:?}") { // Debug text: f32/f64 NaN constants are != themselves
                                                out.push(Violation::new("T0", "semantic-mismatch", "rewrite.duke.tree", "duke::read_class trees differ".to_string()));
                                            }
                                        }
                                    }
                                    _ => st.probe("duke.panicked"), // duke's totality is C01/C16's business
                                }
                            }
                        }
                    }
                    t0_bytes = Some(o);
                }
            }
        }

        // ---------------- raw values: hand-built / hand-mutated
        let v0: Option<ClassFile> = r0.ok().cloned();
        if !p.raw_ops.is_empty() {
            let base: Option<(ClassFile, Sem)> = if p.raw_base_minimal {
                st.probe("raw.base-minimal");
                let v = minimal_raw();
                match check_value("T0", "raw.minimal", &v, &mut out, &mut obs).map(|b| refclass::parse(&b)) {
                    Some(Ok(s)) => {
                        if let Some(d) = minimal_sem().diff(&s) {
                            out.push(Violation::new("T0", "semantic-mismatch", format!("raw.minimal.{d}"), "hand-built minimal value".to_string()));
                            None
                        } else {
                            Some((v, s))
                        }
                    }
                    Some(Err(e)) => {
                        out.push(Violation::new("T0", "invalid-output", format!("raw.minimal.parse:{}", refclass::validate::prefix(&e.what)), format!("{e}")));
                        None
                    }
                    None => None,
                }
            } else if t0_clean {
                st.probe("raw.base-from-read");
                v0.clone().map(|v| (v, sem_in.clone()))
            } else {
                st.probe("raw.skipped-no-clean-base");
                None
            };
            if let Some((mut v, mut sem)) = base {
                let mut prev_bytes = no_panic(|| v.to_bytes()).unwrap_or_default();
                for op in &p.raw_ops {
                    let name = match apply_raw_op(&mut v, &mut sem, op) {
                        Ok(n) => n,
                        Err(_) => {
                            st.probe("raw.op-not-applicable");
                            continue;
                        }
                    };
                    st.probe("raw.ops-applied");
                    st.probe(raw_probe(&name));
                    let before = out.len();
                    let stage = format!("raw.{name}");
                    let Some(b) = check_value("T0", &stage, &v, &mut out, &mut obs) else { break };
                    // what other readers see: the hand-made edit, nothing else
                    match refclass::parse(&b) {
                        Err(e) => out.push(Violation::new("T0", "invalid-output", format!("{stage}.unparsable"), format!("a reader following JVMS cannot parse the written value: {e}"))),
                        Ok(s2) => {
                            if let Some(d) = sem.diff(&s2) {
                                out.push(Violation::new("T0", "semantic-mismatch", format!("{stage}.{d}"), "the written value denotes something else than the edit".to_string()));
                            } else if matches!(op, RawOp::PushPool { .. }) {
                                // the class is unchanged: duke must treat both files alike
                                if let (Ok(a), Ok(b2)) = (duke_read(&prev_bytes), duke_read(&b)) {
                                    st.probe("duke.cross-read");
                                    if a.is_ok() != b2.is_ok() {
                                        out.push(Violation::new("T0", "semantic-mismatch", format!("{stage}.duke.result"), format!("duke::read_class: before {:?}, after {:?}", a.as_ref().err(), b2.as_ref().err())));
                                    } else if let (Ok(a), Ok(b2)) = (a, b2) {
                                        if format!("{a:?}") != format!("{b2:?}") {
                                            if debug() {
                                                eprintln!("before {a:#?}\nafter {b2:#?}");
                                            }
                                            out.push(Violation::new("T0", "semantic-mismatch", format!("{stage}.duke.tree"), "duke::read_class trees differ".to_string()));
                                        }
                                    }
                                }
                            }
                        }
                    }
                    if out.len() > before {
                        break; // later edits would inherit this one's defect
                    }
                    prev_bytes = b;
                }
            }
        }

        // ---------------- hand-built values with a sentinel in every field vs hand-written JVMS bytes
        if let Some(i) = p.golden {
            st.probe("golden.checked");
            let c = c20_golden::case(i % c20_golden::COUNT);
            match no_panic(|| c.value.to_bytes()) {
                Ok(o) => {
                    obs.bytes(&o);
                    if o != c.bytes {
                        let at = first_diff(&o, &c.bytes);
                        out.push(Violation::new("T0", "invalid-output", format!("golden.{}.write", c.name), format!("to_bytes of the hand-built value differs from the JVMS layout at byte {at}: wrote {:02x?}, JVMS {:02x?} (lengths {} vs {})", o.get(at), c.bytes.get(at), o.len(), c.bytes.len())));
                    }
                }
                Err(pm) => out.push(Violation::new("T0", "panic", panic_ident(&format!("golden.{}.to_bytes", c.name), &pm), pm)),
            }
            let r = read_plain(&c.bytes);
            obs.u64(r.code());
            match &r.res {
                Ok(Ok(v)) => {
                    if v != &c.value {
                        out.push(Violation::new("T0", "semantic-mismatch", format!("golden.{}.read", c.name), "read of the hand-written JVMS bytes returns a value different from the hand-built one".to_string()));
                    }
                }
                Ok(Err(e)) => out.push(Violation::new("T0", "semantic-mismatch", format!("golden.{}.read", c.name), format!("read of the hand-written JVMS bytes failed: {e}"))),
                Err(pm) => out.push(Violation::new("T0", "panic", panic_ident(&format!("golden.{}.read", c.name), pm), pm.clone())),
            }
        }

        // ---------------- reader through the simulated source
        if !p.read_io.is_plain() {
            let legal = p.read_io.legal_only();
            let tier = if legal { "T1" } else { "T2" };
            st.tier(tier_static(legal));
            let mut medium = bytes.clone();
            if legal {
                medium.extend((0..p.trailing).map(|i| 0xCA ^ i.wrapping_mul(29)));
            }
            let src = SimReader::new(&medium, &p.read_io);
            let delivered = src.delivered().to_vec();
            let mut g = Guard::new(src, &delivered);
            // legal schedule over bytes a plain read accepted: nothing for the guard to protect from
            g.active = !(legal && r0.ok().is_some());
            let res = no_panic(|| ClassFile::read(&mut g));
            let consumed = g.pos;
            if g.fired {
                st.probe("guard.fired");
            }
            let src = g.inner;
            st.io(&src.stats, src.log);
            if src.fuel_exhausted {
                out.push(Violation::new(tier, "runaway", "read", "fuel exhausted"));
            }
            match res {
                Err(pm) => {
                    obs.u64(13);
                    if r0.res.is_err() {
                        st.probe("reader.panic-already-reported-at-t0");
                    } else {
                        out.push(Violation::new(tier, "panic", panic_ident("read", &pm), pm));
                    }
                }
                Ok(Ok(v)) => {
                    obs.u64(11);
                    if legal {
                        match r0.ok() {
                            Some(v0) => {
                                if &v != v0 {
                                    out.push(Violation::new("T1", "schedule-dependence", "read.value", "value read under short/interrupted reads differs from the plain read".to_string()));
                                }
                            }
                            None => out.push(Violation::new("T1", "schedule-dependence", "read.result", "plain read failed, read under short/interrupted reads succeeded".to_string())),
                        }
                        // the plain read consumed exactly the class (judged at T0); the same must hold whatever the chunking,
                        // and the bytes after the class stay untouched
                        if consumed != r0.consumed {
                            out.push(Violation::new("T1", "stream-position", "read.consumed", format!("consumed {consumed} bytes, the plain read {} (class {} bytes, {} trailing bytes on the medium)", r0.consumed, bytes.len(), p.trailing)));
                        } else if p.trailing > 0 && consumed == bytes.len() {
                            st.probe("t1.trailing-bytes-untouched");
                        }
                    } else {
                        // T2 rule: Ok(v) only if v re-encodes to exactly the bytes the medium delivered to the reader
                        let fired = !src.stats.fired.is_empty();
                        match no_panic(|| v.to_bytes()) {
                            Err(pm) => out.push(Violation::new("T2", "panic", panic_ident("to_bytes-after-damaged-read", &pm), pm)),
                            Ok(o) => {
                                obs.bytes(&o);
                                let got = &delivered[..consumed.min(delivered.len())];
                                if o == got {
                                    st.probe(if !fired {
                                        "t2.read-ok.fault-not-reached"
                                    } else if consumed < delivered.len() {
                                        "t2.read-ok.byte-exact-prefix"
                                    } else {
                                        "t2.read-ok.byte-exact"
                                    });
                                } else if !t0_clean {
                                    st.probe("t2.read-ok.not-judged-t0-already-differs");
                                } else if refclass::validate(got).is_err() && refclass::parse(got).is_err() {
                                    // the delivered bytes are not a well-formed class file any more (e.g. a damaged
                                    // attribute_length that the crate does not look at): a tolerant Ok is outside the property
                                    st.probe("lenient_accept");
                                } else {
                                    let at = first_diff(&o, got);
                                    let mut reg = region(&sk, at);
                                    if reg.starts_with("attr.") && reg.ends_with(".attribute_length") {
                                        reg = "attribute_length".into(); // one cause (the length is not looked at), whatever the attribute
                                    }
                                    out.push(Violation::new(
                                        "T2",
                                        "reader-ok-with-wrong-data",
                                        format!("read.ok-not-byte-exact@{reg}"),
                                        format!(
                                            "read returned Ok(v) but to_bytes(v) differs from the {consumed} bytes delivered: first difference at byte {at} ({}; delivered {:02x?}, re-encoded {:02x?}); faults fired {:?}",
                                            sk.region(at),
                                            got.get(at),
                                            o.get(at),
                                            src.stats.fired
                                        ),
                                    ));
                                }
                            }
                        }
                    }
                }
                Ok(Err(e)) => {
                    obs.u64(12);
                    if legal {
                        if r0.ok().is_some() {
                            out.push(Violation::new("T1", "schedule-dependence", "read.result", format!("legal short/interrupted reads made read fail: {e}")));
                        }
                    } else {
                        st.probe("t2.read-err");
                    }
                }
            }
            if !legal {
                // no residue: the undamaged bytes read as before
                let again = read_plain(&bytes);
                if again.code() != r0.code() || again.ok() != r0.ok() {
                    out.push(Violation::new("T2", "residue-after-heal", "read", "plain read after the faulty one differs from the first plain read".to_string()));
                }
            }
        }

        // ---------------- writer through the simulated sink
        if !p.write_io.is_plain() {
            // the value to write: what was read, else the hand-built minimal value
            let (wv, wbytes) = match (&v0, &t0_bytes) {
                (Some(v), Some(b)) => (v.clone(), b.clone()),
                _ => {
                    st.probe("writer.uses-minimal-value");
                    let v = minimal_raw();
                    let b = no_panic(|| v.to_bytes()).unwrap_or_default();
                    (v, b)
                }
            };
            let legal = p.write_io.legal_only();
            let tier = if legal { "T1" } else { "T2" };
            st.tier(tier_static(legal));
            let mut sink = SimWriter::new(&p.write_io);
            let res = no_panic(|| wv.write(&mut sink));
            st.io(&sink.stats, sink.log);
            let acc = sink.accepted();
            obs.bytes(acc);
            match res {
                Err(pm) => out.push(Violation::new(tier, "panic", panic_ident("write", &pm), pm)),
                Ok(Ok(())) => {
                    obs.u64(21);
                    if acc != &wbytes[..] {
                        if legal {
                            out.push(Violation::new("T1", "schedule-dependence", "write.sink", format!("sink holds {} bytes (first difference at {}), to_bytes gives {}", acc.len(), first_diff(acc, &wbytes), wbytes.len())));
                        } else {
                            out.push(Violation::new("T2", "writer-ok-with-incomplete-sink", "sink", format!("write returned Ok(()) but the sink holds {} of {} bytes (faults fired: {:?})", acc.len(), wbytes.len(), sink.stats.fired)));
                        }
                    } else if legal {
                        let l = no_panic(|| wv.length()).unwrap_or(usize::MAX);
                        if l != acc.len() {
                            out.push(Violation::new("T1", "invalid-output", "write.length", format!("length() = {l}, the sink accepted {}", acc.len())));
                        }
                    }
                    if !legal && !sink.stats.fired.is_empty() {
                        st.probe("t2.write-ok-despite-fault");
                    }
                }
                Ok(Err(e)) => {
                    obs.u64(22);
                    if legal {
                        out.push(Violation::new("T1", "schedule-dependence", "write.result", format!("legal short/interrupted writes made write fail: {e}")));
                    } else {
                        st.probe("t2.write-err");
                        if !is_prefix(acc, &wbytes) {
                            out.push(Violation::new("T2", "writer-err-with-nonprefix-sink", "sink", format!("{} bytes accepted, not a prefix of the plain output (first difference at {})", acc.len(), first_diff(acc, &wbytes))));
                        }
                        if acc.len() + 1 == wbytes.len() {
                            st.probe("t2.write-err-at-last-byte");
                        }
                    }
                }
            }
            if !legal {
                let mut again = Vec::new();
                match no_panic(|| wv.write(&mut again)) {
                    Ok(Ok(())) if again == wbytes => {}
                    _ => out.push(Violation::new("T2", "residue-after-heal", "write", "writing again to a healthy sink does not give the plain bytes".to_string())),
                }
            }
        }
        st.obs = obs;
        out
    }

    fn shrink(&self, p: &Plan) -> Vec<Plan> {
        let mut c = vec![];
        let old_bytes = build(&p.src).unwrap_or_default();
        let with_src = |s: Source| {
            let mut q = p.clone();
            q.read_io = reaim(&old_bytes, &build(&s).unwrap_or_default(), &p.read_io);
            q.src = s;
            q
        };
        // the smallest class first
        if p.src.base != Base::Minimal {
            c.push(with_src(Source { base: Base::Minimal, raw: false, layout: None, cuts: vec![] }));
        }
        for io in shrink_io(&p.read_io) {
            let mut q = p.clone();
            q.read_io = io;
            c.push(q);
        }
        for io in shrink_io(&p.write_io) {
            let mut q = p.clone();
            q.write_io = io;
            c.push(q);
        }
        if !p.read_io.is_plain() {
            let mut q = p.clone();
            q.read_io = IoPlan::plain();
            c.push(q);
        }
        if !p.write_io.is_plain() {
            let mut q = p.clone();
            q.write_io = IoPlan::plain();
            c.push(q);
        }
        if p.trailing > 0 {
            let mut q = p.clone();
            q.trailing = 0;
            c.push(q);
        }
        if p.golden.is_some() {
            let mut q = p.clone();
            q.golden = None;
            c.push(q);
        }
        if !p.raw_ops.is_empty() {
            let mut q = p.clone();
            q.raw_ops.clear();
            c.push(q);
            for i in 0..p.raw_ops.len() {
                let mut q = p.clone();
                q.raw_ops.remove(i);
                c.push(q);
            }
            if !p.raw_base_minimal {
                let mut q = p.clone();
                q.raw_base_minimal = true;
                c.push(q);
            }
            for (i, op) in p.raw_ops.iter().enumerate() {
                if let RawOp::AddClassAttr { kind, n } | RawOp::AddMethodAttr { kind, n } = op {
                    if *n % 4 > 0 {
                        let mut q = p.clone();
                        q.raw_ops[i] = if matches!(op, RawOp::AddClassAttr { .. }) { RawOp::AddClassAttr { kind: kind.clone(), n: 0 } } else { RawOp::AddMethodAttr { kind: kind.clone(), n: 0 } };
                        c.push(q);
                    }
                }
            }
        }
        // the class itself
        let s = &p.src;
        if s.raw {
            let mut t = s.clone();
            t.raw = false;
            c.push(with_src(t));
            return c;
        }
        if s.layout.is_some() {
            let mut t = s.clone();
            t.layout = None;
            c.push(with_src(t));
        }
        if let Base::Gen { seed, max_members, max_insns, features, major_min, major_max } = &s.base {
            if s.cuts.is_empty() {
                let g = |mm: u32, mi: u32, f: u32| with_src(Source { base: Base::Gen { seed: *seed, max_members: mm, max_insns: mi, features: f, major_min: *major_min, major_max: *major_max }, ..s.clone() });
                if *max_members > 0 {
                    c.push(g(0, *max_insns, *features));
                    c.push(g(max_members / 2, *max_insns, *features));
                }
                if *max_insns > 1 {
                    c.push(g(*max_members, 1, *features));
                    c.push(g(*max_members, max_insns / 2, *features));
                }
                if *features != 0 {
                    c.push(g(*max_members, *max_insns, 0));
                }
                for bit in 0..20 {
                    if features & (1 << bit) != 0 {
                        c.push(g(*max_members, *max_insns, features & !(1 << bit)));
                    }
                }
            }
        }
        if let Ok(sem) = source_sem(s) {
            let mut cuts = vec![Cut::Methods, Cut::Fields, Cut::Interfaces];
            for k in CLASS_KEYS {
                cuts.push(Cut::ClassAttr { k: k.to_string() });
            }
            for i in 0..sem.methods.len() {
                cuts.push(Cut::Method { i });
            }
            for i in 0..sem.fields.len() {
                cuts.push(Cut::Field { i });
            }
            for i in 0..sem.methods.len() {
                cuts.push(Cut::TrimCode { i });
                cuts.push(Cut::MethodAttr { i, k: "code".into() });
                for k in METHOD_KEYS {
                    cuts.push(Cut::MethodAttr { i, k: k.to_string() });
                }
            }
            for i in 0..sem.fields.len() {
                for k in FIELD_KEYS {
                    cuts.push(Cut::FieldAttr { i, k: k.to_string() });
                }
            }
            for cut in cuts {
                let mut probe = sem.clone();
                if apply_cut(&mut probe, &cut) {
                    let mut t = s.clone();
                    t.cuts.push(cut);
                    c.push(with_src(t));
                }
            }
        }
        c
    }

    fn size(&self, p: &Plan) -> (u64, u64) {
        let n = build(&p.src).map(|b| b.len()).unwrap_or(0) as u64;
        (n + p.raw_ops.len() as u64, (p.read_io.faults.len() + p.write_io.faults.len()) as u64)
    }

    fn rule(&self) -> String {
        "one run = one class file (refclass::encode(gen_class(seed, GenCfg swarm: 3 size classes x feature masks x version ranges), gen_layout(seed) or the default layout), or a file of the vendored javac corpus as-is / re-encoded, or the minimal class) that refclass::validate accepts, x 0-3 hand-made edits of the raw value (pool entry appended incl. long/double, attribute built through the public fields, member removed) x one reader schedule (chunk ceiling, short %, EINTR %, 0-9 trailing bytes) x one writer schedule x 0-2 reader faults (EOF / flipped bit / EIO at call / EIO at offset, aimed at pool, attribute bodies, length and count fields, last bytes) x 0-2 writer faults (ENOSPC aimed after magic / mid-pool / pool-body border / last byte, EIO at call, Ok(0), flush error); a run counts as non-trivial when a short transfer, EINTR or fault actually fired, and as distinct by (class shape digest, I/O event-log digest). T0: read Ok, value == index-level skeleton of the bytes, to_bytes(read(b)) == b, length() == bytes written == write(), read(to_bytes(v)) == v, and where bytes differ the output must parse under refclass to the same Sem, validate, and read alike under duke; edited raw values must re-read equal and parse under refclass to exactly the edited Sem; in 4 % of the runs one of 19 hand-built values with a sentinel in every public field is compared, both ways, with its hand-written JVMS bytes. T1: identical value, exactly the class length consumed, byte-identical sink. T2 reader: Err, or Ok(v) with to_bytes(v) == the bytes delivered up to the consumed position; no panic, no runaway; T2 writer: Err => sink is a prefix of the T0 bytes, Ok => exactly the T0 bytes; afterwards plain read / write give the T0 answer".into()
    }
    fn assumptions(&self) -> Vec<String> {
        vec![
            "\"well-formed class file\" = accepted by refclass::validate (no hard and no soft problem); runs whose input is not are void (counted by probe void.input-not-wellformed)".into(),
            "every ClassFile::read goes through an allocation guard (see c20.rs `Guard`): a 4-byte word read at or after the end of the constant pool whose value exceeds the bytes left on the medium is answered with an I/O error instead of being delivered, because raw_class_file calls Vec::with_capacity(len) on u32 lengths before reading the payload and an allocation failure aborts the process (a totality defect, C16). If the word is a vector length the real outcome could only be Err or abort; if it is an attribute_length the crate ignores, the run degrades to an I/O-error run".into(),
            "T2 reader rule is byte-exactness on what the medium delivered: Ok(v) is accepted iff to_bytes(v) equals the delivered bytes up to the consumed position (the API takes a plain Read and never demands EOF, so a byte-exact proper prefix is accepted and counted); it is judged only for classes whose fault-free rewrite is byte-exact (otherwise the T0 finding stands and is not repeated under T2)".into(),
            "a refusal of a well-formed file is reported once per cause; the cause is found by re-hosting the constant pool alone and then every attribute alone in a minimal class and asking the reader again (diagnostic probes, not part of the verdict)".into(),
            "edited raw values: only edits that keep the value inside what the format can carry are made (appending to the pool, appending a hand-built attribute that is not yet present, removing trailing members); soft validator notes on edited values (e.g. NestMembers in a version-49 file) are not judged, hard parse problems and Sem differences are".into(),
            "duke::read_class is consulted only on outputs that refclass parses (its lengths are then honest) and only where the structure must be unchanged; a panic inside duke is counted, not judged (C01/C16)".into(),
            "harness profile: opt-level 2 with overflow checks and debug assertions (arithmetic semantics of the repository's test profile)".into(),
        ]
    }
    fn real_and_stub(&self) -> serde_json::Value {
        json!({"real": ["raw_class_file::ClassFile::{read, write, to_bytes, length}", "the notation! macro's _read/_write/_len for every structure", "std read_exact / write_all", "duke::read_class (cross-reader)"],
               "stub": ["byte source (SimReader behind the allocation guard)", "byte sink (SimWriter)"],
               "reference": ["refclass::{gen_class, gen_layout, encode, parse, validate, Sem::diff}", "c20_skel (index-level skeleton walker written from JVMS 4.1/4.4/4.7)", "c20_golden (hand-written JVMS byte layouts of 19 hand-built values)"]})
    }
    fn expected_probes(&self) -> Vec<&'static str> {
        vec![
            "src.corpus-raw", "src.corpus-reencoded", "src.generated", "input.pool-has-long-double", "input.pool-without-long-double", "t0.read-ok", "t0.rewrite-byte-exact", "raw.ops-applied", "raw.base-minimal",
            "raw.base-from-read", "golden.checked", "io.eintr", "io.short_transfers", "t1.trailing-bytes-untouched", "t2.read-err", "t2.read-ok.byte-exact", "t2.write-err", "t2.write-err-at-last-byte", "attr.Code", "attr.StackMapTable",
            "attr.NestMembers", "attr.MethodParameters", "ok.attr.ConstantValue", "ok.attr.Code", "ok.attr.StackMapTable", "ok.attr.Exceptions", "ok.attr.InnerClasses", "ok.attr.EnclosingMethod", "ok.attr.Synthetic",
            "ok.attr.Signature", "ok.attr.SourceFile", "ok.attr.SourceDebugExtension", "ok.attr.LineNumberTable", "ok.attr.LocalVariableTable", "ok.attr.LocalVariableTypeTable", "ok.attr.Deprecated",
            "ok.attr.RuntimeVisibleAnnotations", "ok.attr.RuntimeInvisibleAnnotations", "ok.attr.RuntimeVisibleParameterAnnotations", "ok.attr.RuntimeInvisibleParameterAnnotations",
            "ok.attr.RuntimeVisibleTypeAnnotations", "ok.attr.RuntimeInvisibleTypeAnnotations", "ok.attr.AnnotationDefault", "ok.attr.BootstrapMethods", "ok.attr.Module", "ok.attr.ModulePackages",
            "ok.attr.ModuleMainClass", "ok.attr.NestHost", "ok.attr.Record", "ok.attr.PermittedSubclasses", "ok.attr.<unknown>", "raw.op.push-pool-long", "raw.op.add-method-MethodParameters",
            "raw.op.add-NestMembers",
        ]
    }
}

/// C20_NO_GUARD=1 switches the allocation guard off (only to demonstrate the abort in a `ulimit -v` shell, see
/// FINDINGS-C20.md; never set in a check run)
fn guard_off() -> bool {
    std::env::var_os("C20_NO_GUARD").is_some()
}

/// C20_DEBUG=1: hex dumps on stderr (replay aid; never influences a result)
fn debug() -> bool {
    std::env::var_os("C20_DEBUG").is_some()
}

fn tier_static(legal: bool) -> &'static str {
    if legal {
        "T1"
    } else {
        "T2"
    }
}

/// probe names must be 'static: fixed tables
macro_rules! attr_tables {
    ($($n:literal),*) => {
        const ATTR_PROBES: &[(&str, &str, &str)] = &[$(($n, concat!("attr.", $n), concat!("ok.attr.", $n))),*];
    };
}
attr_tables!(
    "ConstantValue", "Code", "StackMapTable", "Exceptions", "InnerClasses", "EnclosingMethod", "Synthetic", "Signature", "SourceFile", "SourceDebugExtension", "LineNumberTable", "LocalVariableTable",
    "LocalVariableTypeTable", "Deprecated", "RuntimeVisibleAnnotations", "RuntimeInvisibleAnnotations", "RuntimeVisibleParameterAnnotations", "RuntimeInvisibleParameterAnnotations",
    "RuntimeVisibleTypeAnnotations", "RuntimeInvisibleTypeAnnotations", "AnnotationDefault", "BootstrapMethods", "MethodParameters", "Module", "ModulePackages", "ModuleMainClass", "NestHost",
    "NestMembers", "Record", "PermittedSubclasses", "<unknown>"
);
/// class contains the attribute
fn attr_probe(label: &str) -> &'static str {
    ATTR_PROBES.iter().find(|t| t.0 == label).map(|t| t.1).unwrap_or("attr.<unknown>")
}
/// class contains the attribute and was read and rewritten byte for byte
fn ok_attr_probe(label: &str) -> &'static str {
    ATTR_PROBES.iter().find(|t| t.0 == label).map(|t| t.2).unwrap_or("ok.attr.<unknown>")
}
fn raw_probe(name: &str) -> &'static str {
    const T: [&str; 24] = [
        "raw.op.push-pool-utf8", "raw.op.push-pool-integer", "raw.op.push-pool-float", "raw.op.push-pool-long", "raw.op.push-pool-double", "raw.op.push-pool-class_this", "raw.op.push-pool-string_this",
        "raw.op.add-Synthetic", "raw.op.add-Deprecated", "raw.op.add-SourceFile", "raw.op.add-Signature", "raw.op.add-NestHost", "raw.op.add-NestMembers", "raw.op.add-PermittedSubclasses",
        "raw.op.add-SourceDebugExtension", "raw.op.add-Other", "raw.op.add-method-MethodParameters", "raw.op.add-method-Exceptions", "raw.op.add-method-Synthetic", "raw.op.add-method-Deprecated",
        "raw.op.pop-method", "raw.op.pop-field", "raw.op.clear-interfaces", "raw.op.push-interface",
    ];
    T.iter().find(|t| &t[7..] == name).copied().unwrap_or("raw.op.other")
}

#[allow(dead_code)]
pub fn hex_of(b: &[u8]) -> String {
    hex_encode(b)
}
