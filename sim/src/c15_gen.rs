//! Workload generator of C15: class hierarchies with bridge patterns and near misses, library jars, mapping sets.
//! Everything drawn here ends up explicit in the `Plan`.

use super::*;

#[derive(Clone, Copy, PartialEq, Debug)]
pub enum Loc {
    Main,
    Lib(usize),
    Missing,
}

/// template kinds: (tag, weight, the template *intends* a bridge)
pub const KINDS: [(&str, u32, bool); 27] = [
    ("cov_ret", 10, true),
    ("param_obj", 10, true),
    ("param_bound", 8, true),
    ("same_twice", 5, true),
    ("super_call", 4, true),
    ("flagged_incompat", 4, true),
    ("flagged_noninh", 4, true),
    ("nonsynth", 4, false),
    ("bridge_flag_only", 3, false),
    ("synth_attr_only", 2, false),
    ("zero_calls", 4, false),
    ("no_code", 2, false),
    ("indy_only", 2, false),
    ("two_distinct", 6, false),
    ("array_callee", 2, false),
    ("arity", 5, false),
    ("prim_ref", 4, false),
    ("prim_prim", 3, false),
    ("unrelated", 5, false),
    ("reversed", 4, false),
    ("void_value", 3, false),
    ("array_obj", 3, false),
    ("array_elem", 2, false),
    ("private", 3, false),
    ("static", 3, false),
    ("final", 3, false),
    ("accessor", 2, false),
];

struct W {
    classes: Vec<(Loc, ClassSpec)>,
    /// (class, delegate name, delegate desc) already targeted by a site
    delegates: BTreeSet<(String, String, String)>,
    uniq: u32,
}

impl W {
    fn idx(&self, name: &str) -> Option<usize> {
        self.classes.iter().position(|(_, c)| c.name == name)
    }
    fn is_iface(&self, name: &str) -> bool {
        self.idx(name).map_or(false, |i| self.classes[i].1.access & ACC_INTERFACE != 0)
    }
    fn loc(&self, name: &str) -> Loc {
        self.idx(name).map_or(Loc::Missing, |i| self.classes[i].0)
    }
    fn has_method(&self, class: &str, name: &str, desc: &str) -> bool {
        self.idx(class).map_or(false, |i| self.classes[i].1.methods.iter().any(|m| m.name == name && m.desc == desc))
    }
    /// adds unless a method of that name and descriptor exists; returns whether added
    fn add_method(&mut self, class: &str, m: MethodSpec) -> bool {
        if self.has_method(class, &m.name, &m.desc) {
            return false;
        }
        match self.idx(class) {
            Some(i) => {
                self.classes[i].1.methods.push(m);
                true
            }
            None => false,
        }
    }
    /// intended (location-blind) strict ancestors
    fn ancestors(&self, name: &str) -> BTreeSet<String> {
        let mut out = BTreeSet::new();
        let mut todo = vec![name.to_string()];
        while let Some(c) = todo.pop() {
            if let Some(i) = self.idx(&c) {
                let cs = &self.classes[i].1;
                for p in cs.sup.iter().chain(cs.ifs.iter()) {
                    if p != OBJECT && out.insert(p.clone()) {
                        todo.push(p.clone());
                    }
                }
            }
        }
        out
    }
    fn fresh(&mut self) -> u32 {
        self.uniq += 1;
        self.uniq
    }
}

fn pick_loc(w: &mut Rng, nlibs: usize, main: u32, lib: u32) -> Loc {
    let x = w.below(100) as u32;
    if x < main {
        Loc::Main
    } else if x < main + lib && nlibs > 0 {
        Loc::Lib(w.usize(nlibs))
    } else if x < main + lib {
        Loc::Main
    } else {
        Loc::Missing
    }
}

fn new_class(w: &mut Rng, name: &str, iface: bool, sup: Option<String>, ifs: Vec<String>) -> ClassSpec {
    let access = if iface { ACC_PUBLIC | ACC_INTERFACE | ACC_ABSTRACT } else { ACC_PUBLIC | ACC_SUPER | if w.chance(15) { ACC_ABSTRACT } else { 0 } };
    let mut c = ClassSpec {
        name: name.to_string(),
        access,
        sup: Some(sup.unwrap_or_else(|| OBJECT.to_string())),
        ifs,
        methods: vec![],
        fields: vec![],
        attrs: if w.chance(60) { w.below(32) as u8 } else { 0 },
        major: *w.pick(&[49u16, 50, 52, 52, 55, 61]),
    };
    if !iface && w.chance(60) {
        let sup = c.sup.clone().unwrap();
        c.methods.push(MethodSpec { access: ACC_PUBLIC, name: "<init>".into(), desc: "()V".into(), code: true, calls: vec![CallSpec { op: 1, owner: sup, name: "<init>".into(), desc: "()V".into() }], kind: String::new(), synth_attr: false, extras: w.below(2) as u8 });
    }
    for i in 0..w.below(3) {
        let desc = w.pick(&["I", "Ljava/lang/Object;", "J", "[I", "Ljava/lang/String;"]).to_string();
        c.fields.push(FieldSpec { access: if iface { 0x0019 } else { *w.pick(&[0x0002u16, 0x0001, 0x0012, 0x1008]) }, name: format!("f{i}"), desc, attrs: w.below(8) as u8 });
    }
    c
}

fn lty(n: &str) -> String {
    format!("L{n};")
}

fn plain_method(access: u16, name: &str, desc: &str, code: bool) -> MethodSpec {
    MethodSpec { access, name: name.into(), desc: desc.into(), code, calls: vec![], kind: String::new(), synth_attr: false, extras: 0 }
}

/// One bridge site in class `x`: a candidate bridge method (by template `kind`) plus what it needs around it.
#[allow(clippy::too_many_arguments)]
fn site(w: &mut Rng, wd: &mut W, x: &str, parent: Option<&str>, nb: &str, tys: &[String], kind: &str, slot_tag: &str) {
    let x_iface = wd.is_iface(x);
    // ---- reference type pairs
    let refs: Vec<String> = tys.to_vec();
    let pick_pair = |w: &mut Rng, wd: &W, want_obj: bool| -> (String, String) {
        // (super, sub)
        let mut pairs: Vec<(String, String)> = vec![];
        for t in &refs {
            for a in wd.ancestors(t) {
                pairs.push((a, t.clone()));
            }
        }
        if want_obj || pairs.is_empty() {
            let sub = if refs.is_empty() || w.chance(30) { w.pick(&["java/lang/String", "java/lang/Integer", "java/lang/Number"]).to_string() } else { w.pick(&refs).clone() };
            (OBJECT.to_string(), sub)
        } else {
            w.pick(&pairs).clone()
        }
    };
    let pick_unrelated = |w: &mut Rng, wd: &W| -> (String, String) {
        let mut pairs: Vec<(String, String)> = vec![];
        for a in &refs {
            for b in &refs {
                if a != b && !wd.ancestors(a).contains(b) && !wd.ancestors(b).contains(a) {
                    pairs.push((a.clone(), b.clone()));
                }
            }
        }
        // prefer pairs whose relation the main jar can decide
        let closed: Vec<(String, String)> = pairs.iter().filter(|(a, b)| wd.loc(a) == Loc::Main && wd.loc(b) == Loc::Main).cloned().collect();
        if !closed.is_empty() && w.chance(75) {
            w.pick(&closed).clone()
        } else if !pairs.is_empty() {
            w.pick(&pairs).clone()
        } else {
            ("java/lang/String".into(), "java/lang/Integer".into())
        }
    };
    // ---- common parameters
    let ncp = w.below(3);
    let mut cp = String::new();
    for _ in 0..ncp {
        let t = match w.below(7) {
            0 => "I".to_string(),
            1 => "J".to_string(),
            2 => "D".to_string(),
            3 => "Ljava/lang/String;".to_string(),
            4 => "[I".to_string(),
            _ if !refs.is_empty() => lty(w.pick(&refs[..]).as_str()),
            _ => "Z".to_string(),
        };
        cp.push_str(&t);
    }
    let common_ret = match w.below(4) {
        0 => "V".to_string(),
        1 => "I".to_string(),
        2 if !refs.is_empty() => lty(w.pick(&refs[..]).as_str()),
        _ => "Ljava/lang/Object;".to_string(),
    };
    // a compatible signature pair (bridge desc, delegate desc)
    let compat_pair = |w: &mut Rng, wd: &W, style: u64| -> (String, String) {
        match style {
            0 => {
                let o = w.chance(30);
                let (sup, sub) = pick_pair(w, wd, o);
                (format!("({cp}){}", lty(&sup)), format!("({cp}){}", lty(&sub)))
            }
            1 => {
                let (_, sub) = pick_pair(w, wd, true);
                (format!("({cp}Ljava/lang/Object;){common_ret}"), format!("({cp}{}){common_ret}", lty(&sub)))
            }
            _ => {
                let (sup, sub) = pick_pair(w, wd, false);
                (format!("({}{cp}){common_ret}", lty(&sup)), format!("({}{cp}){common_ret}", lty(&sub)))
            }
        }
    };
    let incompat_pair = |w: &mut Rng, wd: &W, k: &str| -> (String, String) {
        let at_ret = w.chance(50);
        let put = |a: &str, b: &str| -> (String, String) {
            if at_ret {
                (format!("({cp}){a}"), format!("({cp}){b}"))
            } else {
                (format!("({cp}{a}){common_ret}"), format!("({cp}{b}){common_ret}"))
            }
        };
        match k {
            "arity" => {
                let extra = w.pick(&["I", "Ljava/lang/Object;", "J"]).to_string();
                if w.chance(50) {
                    (format!("({cp}){common_ret}"), format!("({cp}{extra}){common_ret}"))
                } else {
                    (format!("({cp}{extra}){common_ret}"), format!("({cp}){common_ret}"))
                }
            }
            "prim_ref" => {
                let (a, b) = *w.pick(&[("I", "Ljava/lang/Integer;"), ("Ljava/lang/Integer;", "I"), ("Ljava/lang/Object;", "I"), ("J", "Ljava/lang/Object;"), ("Ljava/lang/Object;", "Z")]);
                put(a, b)
            }
            "prim_prim" => {
                let (a, b) = *w.pick(&[("I", "J"), ("S", "I"), ("Z", "B"), ("F", "D"), ("I", "C")]);
                put(a, b)
            }
            "unrelated" => {
                let (a, b) = pick_unrelated(w, wd);
                put(&lty(&a), &lty(&b))
            }
            "reversed" => {
                let o = w.chance(25);
                let (sup, sub) = pick_pair(w, wd, o);
                put(&lty(&sub), &lty(&sup))
            }
            "void_value" => {
                let v = w.pick(&["I", "Ljava/lang/Object;"]).to_string();
                if w.chance(50) {
                    (format!("({cp})V"), format!("({cp}){v}"))
                } else {
                    (format!("({cp}){v}"), format!("({cp})V"))
                }
            }
            "array_obj" => {
                let (a, b) = *w.pick(&[("Ljava/lang/Object;", "[Ljava/lang/String;"), ("Ljava/lang/Object;", "[I"), ("[Ljava/lang/Object;", "Ljava/lang/Object;")]);
                put(a, b)
            }
            _ => {
                // array_elem
                let o = w.chance(40);
                let (sup, sub) = pick_pair(w, wd, o);
                put(&format!("[{}", lty(&sup)), &format!("[{}", lty(&sub)))
            }
        }
    };

    let sig_near = ["arity", "prim_ref", "prim_prim", "unrelated", "reversed", "void_value", "array_obj", "array_elem"];
    let style = w.below(3);
    let (db, dd) = match kind {
        "cov_ret" => compat_pair(w, wd, 0),
        "param_obj" => compat_pair(w, wd, 1),
        "param_bound" => compat_pair(w, wd, 2),
        "flagged_incompat" => {
            let k = *w.pick(&sig_near);
            incompat_pair(w, wd, k)
        }
        k if sig_near.contains(&k) => incompat_pair(w, wd, k),
        "super_call" | "accessor" => {
            let d = format!("({cp}){common_ret}");
            (d.clone(), d)
        }
        _ => compat_pair(w, wd, style),
    };
    // ---- flags
    let vis = *w.pick(&[ACC_PUBLIC, ACC_PUBLIC, ACC_PROTECTED, 0]);
    let vis = if x_iface { ACC_PUBLIC } else { vis };
    let flagged_choice = w.chance(50);
    let mut access = match kind {
        "cov_ret" | "param_obj" | "param_bound" | "same_twice" => vis | ACC_SYNTHETIC | if flagged_choice { ACC_BRIDGE } else { 0 },
        "super_call" | "flagged_incompat" => vis | ACC_SYNTHETIC | ACC_BRIDGE,
        "flagged_noninh" => *w.pick(&[ACC_PRIVATE, ACC_PUBLIC | ACC_STATIC, ACC_PUBLIC | ACC_FINAL, ACC_PRIVATE | ACC_STATIC]) | ACC_SYNTHETIC | ACC_BRIDGE,
        "nonsynth" => vis,
        "bridge_flag_only" => vis | ACC_BRIDGE,
        "synth_attr_only" => vis | if flagged_choice { ACC_BRIDGE } else { 0 },
        "private" => ACC_PRIVATE | ACC_SYNTHETIC,
        "static" => vis | ACC_STATIC | ACC_SYNTHETIC,
        "final" => vis | ACC_FINAL | ACC_SYNTHETIC,
        "accessor" => ACC_STATIC | ACC_SYNTHETIC,
        "no_code" => vis | ACC_ABSTRACT | ACC_SYNTHETIC | if flagged_choice { ACC_BRIDGE } else { 0 },
        "zero_calls" | "indy_only" | "two_distinct" | "array_callee" => vis | ACC_SYNTHETIC | if flagged_choice { ACC_BRIDGE } else { 0 },
        _ => vis | ACC_SYNTHETIC, // signature near misses: unflagged, inheritable
    };
    if x_iface {
        access &= !(ACC_PROTECTED | ACC_FINAL);
    }
    // ---- names
    let mut nbn = nb.to_string();
    if kind == "accessor" {
        nbn = format!("access${:03}", wd.fresh() % 1000);
    }
    // the bridge itself must be a new method of x
    if wd.has_method(x, &nbn, &db) {
        nbn = format!("{nbn}_{}", wd.fresh());
    }
    // delegate: owner, name
    let owner_choice = w.below(10);
    let (owner, op): (String, u8) = if kind == "super_call" {
        (parent.map(|p| p.to_string()).unwrap_or_else(|| OBJECT.to_string()), 1)
    } else if kind == "accessor" {
        (x.to_string(), if w.chance(50) { 2 } else { 1 })
    } else if owner_choice == 0 && parent.is_some() {
        (parent.unwrap().to_string(), 1)
    } else if owner_choice == 1 && !refs.is_empty() {
        let o = w.pick(&refs).clone();
        let op = if wd.is_iface(&o) { 3 } else if w.chance(30) { 2 } else { 0 };
        (o, op)
    } else {
        (x.to_string(), if x_iface { 3 } else if access & ACC_STATIC != 0 && w.chance(60) { 2 } else { 0 })
    };
    let mut nd = if kind == "super_call" {
        nbn.clone()
    } else if db != dd && w.chance(60) && kind != "accessor" {
        nbn.clone()
    } else {
        format!("s{slot_tag}_{}", wd.fresh())
    };
    // never: a method delegating to itself, two sites of one class aiming at the same delegate key, a clash with an
    // existing different method of x
    let mut guard = 0;
    while (owner == x && nd == nbn && dd == db) || wd.delegates.contains(&(x.to_string(), nd.clone(), dd.clone())) || (owner == x && wd.has_method(x, &nd, &dd)) {
        nd = format!("s{slot_tag}_{}", wd.fresh());
        guard += 1;
        if guard > 8 {
            return;
        }
    }
    if kind == "super_call" && wd.delegates.contains(&(x.to_string(), nd.clone(), dd.clone())) {
        return;
    }
    wd.delegates.insert((x.to_string(), nd.clone(), dd.clone()));
    // the bridge key too: another site must not aim at this method
    wd.delegates.insert((x.to_string(), nbn.clone(), db.clone()));
    let deleg = CallSpec { op, owner: owner.clone(), name: nd.clone(), desc: dd.clone() };
    // ---- calls
    let calls: Vec<CallSpec> = match kind {
        "zero_calls" | "no_code" => vec![],
        "indy_only" => vec![CallSpec { op: 4, owner: String::new(), name: "run".into(), desc: "()Ljava/lang/Runnable;".into() }],
        "same_twice" => vec![deleg.clone(), deleg.clone()],
        "two_distinct" => {
            let mut other = deleg.clone();
            match w.below(3) {
                0 => other.name = format!("{}_o", other.name),
                1 => other.desc = if other.desc.starts_with("()") { other.desc.replacen("()", "(I)", 1) } else { format!("(){}", other.desc.rsplit(')').next().unwrap_or("V")) },
                _ => {
                    other.owner = if other.owner == OBJECT { "java/lang/String".into() } else { OBJECT.into() };
                    other.op = 0;
                }
            }
            if w.chance(50) {
                vec![deleg.clone(), other]
            } else {
                vec![other, deleg.clone(), deleg.clone()]
            }
        }
        "array_callee" => {
            let arr = CallSpec { op: 0, owner: "[Ljava/lang/Object;".into(), name: "clone".into(), desc: "()Ljava/lang/Object;".into() };
            if w.chance(50) {
                vec![arr, deleg.clone()]
            } else {
                vec![deleg.clone(), arr]
            }
        }
        _ => vec![deleg.clone()],
    };
    let has_code = kind != "no_code";
    let m = MethodSpec { access, name: nbn.clone(), desc: db.clone(), code: has_code, calls, kind: kind.to_string(), synth_attr: kind == "synth_attr_only" || w.chance(5), extras: w.below(8) as u8 };
    wd.add_method(x, m);
    // the delegate is declared where it is owned (if that class exists in a jar and does not have it yet)
    if wd.idx(&owner).is_some() && !wd.has_method(&owner, &nd, &dd) {
        let o_iface = wd.is_iface(&owner);
        let dacc = if op == 2 {
            ACC_STATIC | *w.pick(&[ACC_PUBLIC, ACC_PRIVATE, 0])
        } else if kind == "accessor" {
            ACC_PRIVATE
        } else if o_iface {
            ACC_PUBLIC | if w.chance(50) { ACC_ABSTRACT } else { 0 }
        } else {
            *w.pick(&[ACC_PUBLIC, ACC_PUBLIC, ACC_PROTECTED])
        };
        let code = dacc & ACC_ABSTRACT == 0;
        let mut dm = plain_method(dacc, &nd, &dd, code);
        dm.extras = w.below(4) as u8;
        wd.add_method(&owner, dm);
    }
}

pub struct Drawn {
    pub main: JarSpec,
    pub libs: Vec<JarSpec>,
    pub calamus: MapSet,
    pub mappings: MapSet,
}

pub fn draw(w: &mut Rng, size: u64) -> Drawn {
    let nlibs = match w.below(10) {
        0..=2 => 0,
        3..=7 => 1,
        _ => 2,
    };
    let mut wd = W { classes: vec![], delegates: BTreeSet::new(), uniq: 0 };
    // ---- type universe (used in descriptors)
    let nt = match size {
        0 => w.range(0, 2),
        1 => w.range(2, 4),
        _ => w.range(3, 7),
    };
    let mut tys: Vec<String> = vec![];
    for i in 0..nt {
        let name = format!("t/T{i}");
        let iface = w.chance(25);
        let prev_cls: Vec<String> = tys.iter().filter(|t| !wd.is_iface(t)).cloned().collect();
        let prev_if: Vec<String> = tys.iter().filter(|t| wd.is_iface(t)).cloned().collect();
        let sup = if !iface && !prev_cls.is_empty() && w.chance(65) { Some(w.pick(&prev_cls).clone()) } else { None };
        let ifs = if !prev_if.is_empty() && w.chance(45) { vec![w.pick(&prev_if).clone()] } else { vec![] };
        let loc = pick_loc(w, nlibs, 60, 25);
        let c = new_class(w, &name, iface, sup, ifs);
        wd.classes.push((loc, c));
        tys.push(name);
    }
    // ---- families
    let nf = match size {
        0 => 1,
        1 => w.range(1, 2),
        _ => w.range(2, 4),
    };
    // (origin class, bridge name, bridge desc candidates are found again from the specs later)
    let mut family_chains: Vec<Vec<String>> = vec![];
    for f in 0..nf {
        let levels = *w.pick(&[1u64, 2, 2, 3, 3, 4]);
        let mut chain: Vec<String> = vec![];
        for i in 0..levels {
            let last = i + 1 == levels;
            let name = if last { format!("f{f}/C") } else { format!("f{f}/P{i}") };
            let parent = chain.last().cloned();
            let parent_iface = parent.as_ref().map_or(false, |p| wd.is_iface(p));
            let iface = if i == 0 { w.chance(if last { 15 } else { 35 }) } else { parent_iface && w.chance(35) };
            let (sup, mut ifs) = match &parent {
                Some(p) if parent_iface => (None, vec![p.clone()]),
                Some(p) => (Some(p.clone()), vec![]),
                None => (None, vec![]),
            };
            if iface {
                // an interface extends interfaces only
            } else if w.chance(20) {
                let ti: Vec<String> = tys.iter().filter(|t| wd.is_iface(t)).cloned().collect();
                if !ti.is_empty() {
                    ifs.push(w.pick(&ti).clone());
                }
            }
            let loc = if last { Loc::Main } else { pick_loc(w, nlibs, 50, 28) };
            let c = new_class(w, &name, iface, sup, ifs);
            wd.classes.push((loc, c));
            chain.push(name);
        }
        // slots: one bridged method name per slot, sites along the chain
        let nslots = if size == 0 { 1 } else { w.range(1, 3) };
        for sl in 0..nslots {
            let nb = format!("m{f}_{sl}");
            let total: u32 = KINDS.iter().map(|k| k.1).sum();
            let draw_kind = |w: &mut Rng| -> &'static str {
                let mut x = w.below(total as u64) as u32;
                for (k, wt, _) in KINDS.iter() {
                    if x < *wt {
                        return k;
                    }
                    x -= wt;
                }
                KINDS[0].0
            };
            let mut placed = false;
            for (i, x) in chain.clone().iter().enumerate() {
                let last = i + 1 == chain.len();
                if wd.loc(x) != Loc::Main {
                    continue;
                }
                if !(last && (w.chance(88) || !placed)) && !(!last && w.chance(30)) {
                    continue;
                }
                let before = wd.classes[wd.idx(x).unwrap()].1.methods.len();
                let kind = draw_kind(w);
                let parent = if i > 0 { Some(chain[i - 1].as_str()) } else { None };
                site(w, &mut wd, x, parent, &nb, &tys, kind, &format!("{f}{sl}"));
                let ms = &wd.classes[wd.idx(x).unwrap()].1.methods;
                if ms.len() > before {
                    placed = true;
                    // the origin: the top of the chain declares the erased method (where names come from)
                    let bridge = ms.iter().rev().find(|m| m.kind == kind).cloned();
                    if let Some(b) = bridge {
                        if i > 0 && b.name == nb && w.chance(85) {
                            let top = chain[0].clone();
                            if wd.idx(&top).is_some() {
                                let ti = wd.is_iface(&top);
                                let acc = ACC_PUBLIC | if ti || w.chance(30) { ACC_ABSTRACT } else { 0 };
                                wd.add_method(&top, plain_method(acc, &b.name, &b.desc, acc & ACC_ABSTRACT == 0));
                            }
                        }
                    }
                }
            }
        }
        family_chains.push(chain);
    }
    // ---- jars
    let mut main = JarSpec { classes: vec![], deflate: w.chance(50), layout: if w.chance(50) { 0 } else { w.next() | 1 }, extras: w.below(8) as u8 };
    let mut libs: Vec<JarSpec> = (0..nlibs).map(|_| JarSpec { classes: vec![], deflate: w.chance(50), layout: if w.chance(60) { 0 } else { w.next() | 1 }, extras: w.below(8) as u8 }).collect();
    let mut all = wd.classes.clone();
    w.shuffle(&mut all);
    for (loc, c) in &all {
        match loc {
            Loc::Main => main.classes.push(c.clone()),
            Loc::Lib(i) => libs[*i].classes.push(c.clone()),
            Loc::Missing => {}
        }
    }
    let (calamus, mappings) = draw_mappings(w, &wd, &main, &libs, size);
    // a library that bundles an older copy of a class of the main jar, with other super types (no methods): the main
    // jar's own class file is the one that counts, on both sides of the naming (missed seeded change C15-15: the
    // hierarchy in the intermediary namespace merged with "last jar wins")
    if !libs.is_empty() && !main.classes.is_empty() && w.chance(12) {
        let li = w.usize(libs.len());
        let c = w.pick(&main.classes).clone();
        if !libs[li].classes.iter().any(|x| x.name == c.name) {
            libs[li].classes.push(ClassSpec { sup: Some("java/lang/Object".into()), ifs: vec![], methods: vec![], fields: vec![], ..c });
        }
    }
    // ... and the other way round: the main jar's class has no super type but java/lang/Object, the copy a library
    // bundles extends something - by preference a class that declares a method with the name and descriptor of one of
    // the synthetic methods of the class (missed seeded change C15-17: a provider derived from an index that keeps no
    // entry for classes directly below Object lets the library's entry win)
    if !libs.is_empty() && w.chance(12) {
        let plain: Vec<ClassSpec> = main.classes.iter().filter(|c| c.ifs.is_empty() && c.sup.as_deref().map_or(true, |s| s == "java/lang/Object")).cloned().collect();
        if !plain.is_empty() {
            let c = w.pick(&plain).clone();
            let all: Vec<&ClassSpec> = main.classes.iter().chain(libs.iter().flat_map(|l| l.classes.iter())).filter(|b| b.name != c.name).collect();
            let synth: Vec<(&String, &String)> = c.methods.iter().filter(|m| m.access & 0x1000 != 0).map(|m| (&m.name, &m.desc)).collect();
            let related: Vec<&&ClassSpec> = all.iter().filter(|b| b.methods.iter().any(|m| synth.contains(&(&m.name, &m.desc)))).collect();
            let base = if !related.is_empty() { Some(w.pick(&related).name.clone()) } else if !all.is_empty() { Some(w.pick(&all).name.clone()) } else { None };
            if let Some(base) = base {
                let li = w.usize(libs.len());
                if !libs[li].classes.iter().any(|x| x.name == c.name) {
                    libs[li].classes.push(ClassSpec { sup: Some(base), ifs: vec![], methods: vec![], fields: vec![], ..c });
                }
            }
        }
    }
    Drawn { main, libs, calamus, mappings }
}

fn draw_mappings(w: &mut Rng, wd: &W, main: &JarSpec, libs: &[JarSpec], size: u64) -> (MapSet, MapSet) {
    let mut cal = MapSet { ns: vec!["official".into(), "intermediary".into()], doc: None, classes: BTreeMap::new() };
    let cal_rate = *w.pick(&[100u32, 90, 85, 60]);
    // classes (missing ones too: a mapping set may know classes the jars do not contain)
    for (n, (loc, c)) in wd.classes.iter().enumerate() {
        if *loc == Loc::Missing && w.chance(50) {
            continue;
        }
        if !w.chance(cal_rate) {
            continue;
        }
        let names = if w.chance(4) { vec![None] } else { vec![Some(format!("c/C_{n}"))] };
        cal.classes.insert(c.name.clone(), ClassM { names, ..Default::default() });
    }
    // methods: one intermediary name per (method name, descriptor) for candidates and per delegate
    let mut inter: BTreeMap<(String, String), String> = BTreeMap::new();
    let mut counter = 0u32;
    let candidates: Vec<(String, MethodSpec)> = wd.classes.iter().flat_map(|(_, c)| c.methods.iter().filter(|m| !m.kind.is_empty()).map(move |m| (c.name.clone(), m.clone()))).collect();
    for (cn, m) in &candidates {
        let key = (m.name.clone(), m.desc.clone());
        counter += 1;
        let iname = inter.entry(key.clone()).or_insert_with(|| format!("m_{counter}")).clone();
        // named in the class itself (30 %), and wherever else in the universe the same method is declared (70 % each)
        for (_, c) in &wd.classes {
            if !c.methods.iter().any(|x| x.name == key.0 && x.desc == key.1) {
                continue;
            }
            let here = c.name == *cn;
            if let Some(cm) = cal.classes.get_mut(&c.name) {
                if w.chance(if here { 30 } else { 70 }) {
                    cm.methods.entry(mkey(&key.0, &key.1)).or_insert(MemberM { names: vec![Some(iname.clone())], ..Default::default() });
                }
            }
        }
        // the delegate(s)
        for call in &m.calls {
            if call.op == 4 || call.owner.starts_with('[') {
                continue;
            }
            if let Some(cm) = cal.classes.get_mut(&call.owner) {
                if w.chance(50) {
                    counter += 1;
                    let dname = if w.chance(50) { iname.clone() } else { format!("m_{counter}") };
                    let dn = inter.entry((call.name.clone(), call.desc.clone())).or_insert(dname).clone();
                    cm.methods.entry(mkey(&call.name, &call.desc)).or_insert(MemberM { names: vec![Some(dn)], ..Default::default() });
                }
            }
        }
    }
    // ---- the set to be extended, keyed by intermediary names
    let specs: Vec<Vec<RClass>> = std::iter::once(main).chain(libs.iter()).map(|j| j.classes.iter().map(rclass_of_spec).collect()).collect();
    let provs: Vec<rb::Prov> = specs.iter().map(|c| rb::provider(c)).collect();
    let through = |class: &str, name: &str, desc: &str| -> (String, String) {
        let mut cut = false;
        let n = rb::lookup(&cal, &provs, class, &mkey(name, desc), 0, &mut cut).map(|f| f.name).unwrap_or_else(|| name.to_string());
        (n, rb::map_desc(&cal, desc))
    };
    let mut map = MapSet { ns: vec!["intermediary".into(), "named".into()], doc: None, classes: BTreeMap::new() };
    let map_rate = *w.pick(&[100u32, 90, 80, 55]);
    for (n, (loc, c)) in wd.classes.iter().enumerate() {
        if *loc == Loc::Missing && w.chance(50) {
            continue;
        }
        if !w.chance(map_rate) {
            continue;
        }
        let names = if w.chance(5) { vec![None] } else { vec![Some(format!("n/N{n}"))] };
        let mut cm = ClassM { names, ..Default::default() };
        if w.chance(20) {
            cm.doc = Some("class comment".into());
        }
        for f in &c.fields {
            if w.chance(40) {
                cm.fields.insert(mkey(&f.name, &rb::map_desc(&cal, &f.desc)), MemberM { names: vec![Some(format!("field_{}", f.name))], ..Default::default() });
            }
        }
        map.classes.insert(rb::map_class(&cal, &c.name), cm);
    }
    let mut named: BTreeMap<(String, String), String> = BTreeMap::new();
    for (cn, m) in &candidates {
        let key = (m.name.clone(), m.desc.clone());
        counter += 1;
        let nname = named.entry(key.clone()).or_insert_with(|| format!("name{counter}")).clone();
        let style = w.below(10); // 0: nowhere; 1..=2: own class too; else: only where else it is declared
        for (_, c) in &wd.classes {
            if !c.methods.iter().any(|x| x.name == key.0 && x.desc == key.1) {
                continue;
            }
            let here = c.name == *cn;
            let p = match (style, here) {
                (0, _) => 0,
                (1..=2, true) => 100,
                (_, true) => 30,
                (_, false) => 80,
            };
            if !w.chance(p) {
                continue;
            }
            let (kn, kd) = through(&c.name, &key.0, &key.1);
            if let Some(cm) = map.classes.get_mut(&rb::map_class(&cal, &c.name)) {
                let mut me = MemberM { names: vec![Some(nname.clone())], ..Default::default() };
                if w.chance(25) {
                    me.doc = Some("bridge comment".into());
                }
                cm.methods.entry(mkey(&kn, &kd)).or_insert(me);
            }
        }
        // the delegate may be known already (other name, comment, parameter) - within the bridge's class
        if let Some(call) = m.calls.iter().find(|c| c.op != 4 && !c.owner.starts_with('[')) {
            if w.chance(35) {
                let (kn, kd) = through(&call.owner, &call.name, &call.desc);
                if let Some(cm) = map.classes.get_mut(&rb::map_class(&cal, cn)) {
                    counter += 1;
                    let mut me = MemberM { names: vec![if w.chance(15) { None } else { Some(format!("old{counter}")) }], ..Default::default() };
                    if w.chance(50) {
                        me.doc = Some("delegate comment\nsecond line".into());
                    }
                    if w.chance(50) {
                        me.params.insert(1, ParamM { names: vec![None, Some("arg".into())], doc: None });
                    }
                    cm.methods.entry(mkey(&kn, &kd)).or_insert(me);
                }
            }
        }
    }
    // unrelated entries that must come back unchanged
    if w.chance(60) {
        let cfg = GenCfg { nns: 2, max_classes: if size >= 2 { 5 } else { 2 }, max_members: 3, unicode: w.chance(30), comments: true, missing: w.chance(50), inner: w.chance(40), enigma: false, big: false };
        let noise = gen_mapset(w, &cfg);
        for (k, c) in noise.classes {
            map.classes.entry(k).or_insert(c);
        }
    }
    (cal, map)
}
