#!/usr/bin/env python3
# Prints the brief for a fresh sub-agent that is to write PROPERTY-PRESERVING changes for one property:
# changes of incidental behaviour under which every registered check has to stay silent.
# usage: benign_prompt.py <Cxx> <n> [<n> ...]
import json, sys, os
here = os.path.dirname(os.path.dirname(os.path.abspath(__file__)))
pid = sys.argv[1]; ns = sys.argv[2:]
prop = None
for l in open(os.path.join(here, 'properties.jsonl')):
    p = json.loads(l)
    if p['id'] == pid: prop = p
files = '\n'.join('  ' + f for f in prop['anchors']['files'])
wt = '/tmp/mw/B' + pid
print(f"""You are helping to evaluate a verification effort for the Rust workspace zeichenreihe/feather-build-rs (Java class-file reading/writing `duke`, `raw_class_file`, jar handling `dukebox`, `dukenest`, Minecraft mapping tooling `quill`, `maven_dependency_resolver`, and a binary crate in `src/`). You work ONLY inside your own scratch git worktree `{wt}` (a worktree of the repository at its current HEAD; it builds offline: always pass `--offline` to cargo and set CARGO_NET_OFFLINE=true; there is no network). Never touch /repo or /verif, and do not read anything under /verif.

The property (a semantic guarantee users of the code rely on):

  id: {pid}
  title: {prop['title']}
  statement: {prop['statement']}
  holds for: {prop['quantifier']['text']}
  code it is anchored in:
{files}

Someone built checkers for this property. A good checker must stay SILENT on a change that keeps the property true. Your job is to write {len(ns)} DIFFERENT, INDEPENDENT changes (numbered {', '.join(ns)}) to the code the property is anchored in, each of which
  1. compiles and passes the existing test suite unchanged (`CARGO_NET_OFFLINE=true cargo test --workspace --no-fail-fast --offline`, exit 0),
  2. KEEPS the property above true for every input and every environment behaviour, and also keeps every other guarantee a user of these public functions could reasonably rely on (results, error-or-success for every input and every I/O fault, "a read consumes exactly the bytes of one class file", "an error of the reader/writer/file system is reported as Err, never swallowed", "Ok means everything was written", no panics, no unbounded memory or recursion, thread safety),
  3. but visibly CHANGES INCIDENTAL BEHAVIOUR that the property does not constrain and that a too-strict checker might have baked in. Good candidates (pick different ones, the more observable the better): the pattern of read/write/seek/flush calls (sizes, number, buffering, read-and-discard instead of seek or the reverse, one big write instead of many small ones or the reverse, an extra flush); which of several equally valid encodings the writer picks (constant-pool order, pool entry sharing, `ldc_w` where `ldc` would fit, attribute order, wide forms, stack-map frame kinds) as long as the written class states the same facts; the order of independent steps (which jar / file / entry / repository request is looked at first when the result does not depend on it; sequential instead of concurrent requests or the reverse); order of entries in an output where nothing promises an order; wording and kind of error messages (still an error in exactly the same situations); eager instead of lazy work or the reverse; an internal data structure replaced (IndexMap -> BTreeMap + explicit order, recursion -> explicit stack); a correct cache. Do NOT change which inputs are accepted or refused, and do not change any result a caller can observe through the public API other than by such incidental routes.
  4. is a change a maintainer could plausibly commit (refactoring, optimisation, clean-up).

For EACH change n write into `{wt}/out/<n>/` (create it; `out/` is not part of the repository):
  - `patch.diff`: the change, as `git diff` output relative to the clean HEAD of the worktree (source files only; no tests);
  - `meta.json`: {{"property": "{pid}", "summary": "<which file/function was changed and how, 2-4 sentences>", "incidental": "<which incidental behaviour now differs and how a caller/checker could notice it>", "why_property_holds": "<a careful argument that the property and the other guarantees listed above still hold for all inputs and all I/O behaviours, including faults>", "ran": ["<commands you ran and their outcome>"]}}.

Procedure for each change, really run it: clean tree (`git checkout -- . && git clean -fd -e out`), apply the patch, run the full suite (must exit 0), and write and run a small throw-away test of your own (do not keep it) that exercises the changed path on a couple of inputs, including an I/O fault or a short-read/short-write reader/writer where relevant, and compares with the behaviour of the clean HEAD. The patch must apply to the clean HEAD with `git apply`. Leave the worktree clean at the end (only `out/` remains). Do not commit. The cargo feature `verif` exists on some crates (off by default): do not use it and do not change code guarded by it, but keep that code compiling (`cargo check --offline -p duke -p quill -p dukebox --features verif` where those crates have the feature - check with each crate's Cargo.toml - must still succeed).

Be conservative about point 2: if you are not sure a change keeps the property, do not submit it. Report at the end, per change: one paragraph.""")
