#!/bin/sh
# Confirms one candidate seeded change in a scratch worktree: demo passes without the patch, fails with it,
# and the existing suite passes with the patch. usage: confirm_mutant.sh <worktree> <dir with patch.diff demo.diff meta.json>
WT="$1"; D="$2"
export CARGO_NET_OFFLINE=true
cd "$WT" || exit 2
git checkout -q -- . && git clean -qfd -e out
CMD=$(python3 -c "import json,sys;print(json.load(open('$D/meta.json'))['demo_cmd'])")
git apply "$D/demo.diff" || { echo "RESULT $D demo.diff does not apply"; exit 1; }
( eval "$CMD" ) >"$D/demo_without_patch.log" 2>&1; a=$?
git apply "$D/patch.diff" || { echo "RESULT $D patch.diff does not apply"; git checkout -q -- .; git clean -qfd -e out; exit 1; }
( eval "$CMD" ) >"$D/demo_with_patch.log" 2>&1; b=$?
# the existing suite, unedited, with the patch only
git checkout -q -- . && git clean -qfd -e out
git apply "$D/patch.diff"
cargo test --workspace --offline --no-fail-fast >"$D/suite_with_patch.log" 2>&1; c=$?
git checkout -q -- . && git clean -qfd -e out
echo "RESULT $D demo_without_patch=$a demo_with_patch=$b suite_with_patch=$c"
[ $a -eq 0 ] && [ $b -ne 0 ] && [ $c -eq 0 ]
