#!/usr/bin/env python3
"""Prints the markdown table of seeded changes (from seeded/*/meta.json) for DESIGN.md section 13."""
import json, os, glob
HERE = os.path.dirname(os.path.dirname(os.path.abspath(__file__)))
print("| id | property | what it needs to manifest | check result | first identities reported |")
print("|----|----------|---------------------------|--------------|---------------------------|")
for d in sorted(glob.glob(os.path.join(HERE, "seeded", "*"))):
    m = json.load(open(os.path.join(d, "meta.json")))
    cr = m.get("check_result", {})
    needs = m.get("needs", "").replace("|", "/").replace("\n", " ")
    if len(needs) > 260: needs = needs[:257] + "..."
    ids = cr.get("first_identities", "").replace("|", " ; ")
    if len(ids) > 200: ids = ids[:197] + "..."
    print(f"| {os.path.basename(d)} | {m.get('property')} | {needs} | {cr.get('outcome','?')} | {ids} |")
