#!/usr/bin/env python3
"""Writes /verif/MANIFEST.json from the table below (kept next to the code so the two cannot drift)."""
import json, os, sys
HERE = os.path.dirname(os.path.dirname(os.path.abspath(__file__)))

NA = {
 "C06": "not applicable to deterministic simulation: remapper_a/remapper_b and map_class/map_desc/map_field/map_method are pure in-memory lookups and string rewrites; no reader, writer, path, clock, task or shared state on the path, so there is no schedule or fault for a simulator to own (DESIGN.md section 2)",
 "C08": "not applicable: Mappings::reorder is a pure &Mappings -> Result<Mappings> over IndexMaps; no seam, no state between calls (DESIGN.md section 2)",
 "C09": "not applicable: Mappings::merge(&a,&b) is a pure key-union zip over IndexMaps; no seam (DESIGN.md section 2)",
 "C10": "not applicable: remove_dummy / insert_dummy_and_contract_inner_names are nested retain closures over in-memory trees; no seam (DESIGN.md section 2)",
 "C11": "not applicable: extend_/contract_inner_class_names and the ObjClassName split/join helpers are pure functions; no seam (DESIGN.md section 2)",
 "C18": "not applicable: descriptor/name parse, write and is_valid are pure string functions; the fitting technique is exhaustive bounded enumeration of strings, a different family (DESIGN.md section 2)",
}

# id -> (category, technique, level text, level note, design ref)
CLAIMED = {
 "C03": ("exploration",
         "deterministic simulation: seeded workload + simulated Read/Write media (short transfers, EINTR, ENOSPC, EIO, Ok(0), flush error, torn and bit-flipped text) checked against a reference mapping-set model and an independent Tiny v2 reader One entry line of the written text is duplicated: the reader must refuse. Media errors carry a drawn error kind (EIO, InvalidData, TimedOut, UnexpectedEof, PermissionDenied, custom).",
         "Seeded search over (mapping set, insertion orders, section order, writer schedule, reader schedule, 0-2 faults). T0: written text read by an independent reader equals the model, real round trip equals the model, write is a fixed point and insertion-order independent. T1: any legal chunking/EINTR schedule gives byte-identical output and the identical value. T2: writer Ok implies the sink holds the complete text, Err implies a prefix; reader Ok on damaged media must equal the reference reading of the delivered bytes. Sampling, not proof.",
         "trusted: refmap (reference model, Tiny v2 reader/writer written from the format description), SimReader/SimWriter, std BufReader/BufWriter; values restricted to what Tiny v2 can carry (DESIGN appendix C)",
         "DESIGN.md section 4 C03"),
}
CLAIMED["C04"] = ("exploration",
 "deterministic simulation: edit histories whose diffs travel as .tinydiff text through simulated readers / tmpfs files, with delivery faults (drop, duplicate, reorder, wrong base, inconsistent text) and media faults, judged step by step by a reference diff/apply model Nameless pairs (a shared node without target name on one side): whatever diff returns must apply to A and give B. The file route replaces one path between the steps of a history.",
 "Seeded search over (history S0..Sk, delivery sequence, text style, reader schedule, one history or media fault). T0: real diff equals reference diff, apply(diff(A,B),A)=B in memory and through text. Every delivered step: real and reference both refuse, or both produce the same set; real Ok where the reference refuses is reported (accepted-inconsistent-diff). T1: reader schedules do not change the parsed diff. T2: Ok on a damaged text must equal the reference reading of the delivered bytes. Sampling, not proof.",
 "trusted: refdiff (reference diff/apply and .tinydiff reader/writer), refmap, SimReader, SimDir; workload restricted to sets a diff can express (every entry named in the target namespace, parameters without source name)",
 "DESIGN.md section 4 C04")
CLAIMED["C12"] = ("exploration",
 "deterministic simulation: Enigma stream API over simulated Read/Write media and the Enigma directory on a simulated disk (tmpfs scratch dir: drawn creation order, crash after k files with a torn last file, truncation, bit flip, vanished and stray files, heal), judged by a reference Enigma reader/writer and mapping-set model One file of the written directory sits on a full device (symbolic link to /dev/full: a real ENOSPC must be reported); files of the directory that is read placed as symbolic links.",
 "Seeded search over (mapping set within the Enigma proviso, insertion orders, writer/reader schedules, directory scenario, one fault). T0: text read by an independent reader equals the model; real round trip (stream and directory) equals the model; write_one per root concatenates to write_all; one file per root; two writes give identical trees. T1: schedules and creation order change nothing. T2: writer Err leaves a prefix, Ok means complete; a read that succeeds on a damaged stream/tree equals the reference reading of what is there; after heal the answer is the model again. Sampling, not proof.",
 "trusted: refmap Enigma reader/writer, SimReader/SimWriter, SimDir (tmpfs; listing order = reverse creation order on this kernel), walkdir; workload restricted to what Enigma can carry (see evidence assumptions)",
 "DESIGN.md section 4 C12")
CLAIMED["C05"] = ("exploration",
 "deterministic simulation: the mappings directory as a simulated disk (tmpfs scratch dir with drawn file-creation = listing order, malformed layouts, files deleted / torn / flipped / misdirected between resolve and apply_diffs, heal), operation sequences judged against a reference version-graph model evaluated over the bytes on disk Every undamaged scenario runs under two creation orders and the answers are compared; islands whose edge leads into a reachable version; files placed as symbolic links; twin inner classes.",
 "Seeded search over (rooted graph of 1-8 versions with plain and split names, edit history per edge, creation order, malformation, query sequence interleaved with damage and heals). Every get/apply_diffs answer must equal the reference (root contracted, diffs along a shortest path, extension) for some shortest path; malformed directories must be refused; a directory whose lookup key is claimed twice must answer identically under three creation orders; under damage: Err, the reference reading of the current bytes, or the pre-damage answer; after heal the healthy answer. Sampling, not proof.",
 "trusted: c05 reference graph model, refdiff, refmap, SimDir (tmpfs lists newest-first on this kernel; the observed listing is logged), petgraph is exercised as real code",
 "DESIGN.md section 4 C05")
CLAIMED["C19"] = ("exploration",
 "deterministic simulation: the async Downloader seam replaced by a simulated network (per-request latency as Pending polls under a harness executor whose poll counter is the only clock, 404 per repository, transient errors, repository down, wrong modelVersion, cancellation and retry) checked against a reference Maven resolver",
 "Seeded search over (POM universe within the supported subset, 1-4 repositories, root list, latency schedule, 0-2 network faults). T0: result equals the reference resolver (order, coordinates, versions, scopes, serving repository = first in list order). T1: latency and 404 fallbacks never change the result; bounded polls. T2: Err, or the fault-free / faulty-repo-absent answer; after faults stop a fresh call gives the T0 answer within a poll budget; cancel-then-retry equals an uninterrupted call. Display/parse round trips ride along. Sampling, not proof.",
 "trusted: refmvn (reference resolver from Maven's dependency-mechanism guide), SimNet, harness executor, serde-xml-rs; request order is logged, never constrained; generator restrictions listed in evidence assumptions",
 "DESIGN.md section 4 C19")
CLAIMED["C16"] = ("fault_enumeration",
 "deterministic fault injection on the parsers' input media, observed from sandboxed child processes: per seed input (hand-built self-referential / deeply nested class files, generated and corpus class files with the reference encoder's offset map, generated Tiny v2 / tinydiff / Enigma / nests texts, descriptor strings) truncation at every offset, every length/count/index/offset/tag field at boundary values, bit flips, line and token edits, seeded multi-byte edits; verdict = the child returned (Ok or Err) without panic, abort, stack overflow, fuel exhaustion or allocation beyond a bound tied to the input length Additional media faults: a medium that stays broken from an offset on, per error kind (decided by reader fuel); the class writer into a sink that answers Ok(0) (decided by sink fuel).",
 "Enumeration, not sampling, of the single-fault space per seed input for truncations, field boundary values and line/token edits (bit flips and multi-byte edits are sampled); the seed inputs are a seeded sample plus the vendored corpus plus hand-built adversarial structures. Every damaged input is given to the real duke::read_class (+ write_class on whatever it accepted), read_class_multi with the unit visitor, tiny_v2::read<2|3>, tiny_v2_diff::read and read_file, enigma_file::read_into, Nests::read, and the three descriptor parsers (+ write on what they accepted). Panics are caught in the child; allocation is accounted by the harness allocator (limit 64 MiB + 1024 x input length live bytes); the byte source has step fuel; stack overflow, allocation-failure abort and CPU loops kill the child and are classified by the parent, which restarts behind the fatal case. One witness (the smallest input) per violation identity is written as a replay file and re-run in a fresh sandboxed child by --replay.",
 "trusted: refclass encoder offset map (only to locate fields; a wrong map would aim mutations badly, never raise a false alarm), refmap/refdiff writers for seed texts, the sandbox (sh ulimit backstops, harness allocator, fixed 8 MiB worker stack, 45 s no-progress watchdog); 'returns' is judged at these limits, stated in evidence",
 "DESIGN.md section 4 C16")
CLAIMED["C17"] = ("exploration",
 "deterministic simulation: one simulated Read+Seek stream holding 1-6 concatenated class files, read by successive read_class_multi calls with masked visitors (drawn interest masks per level, drawn declined classes / members / Code attributes), under drawn chunking / EINTR schedules and faults (EOF, EIO, failing seek, flipped byte); stream-position accounting after every call; received tree compared with the full read filtered by the mask; ClassFile::accept replay compared likewise The members with an odd index can report a second member-level interest mask (hook H1c).",
 "Seeded search over (stream of 1-6 generated or corpus classes, visitor kind, interest mask at class/field/method/code/record level, declined items, reader schedule, 0-1 fault, accept on/off). After every successful call the position must equal the end of that class (a wrong skip corrupts the next class). What the masked tree builder received, projected into the reference model, must equal duke's own full read of the class with uninteresting kinds and declined members removed (an uninteresting kind that is delivered anyway must be the true value). accept() of the fully read tree into the same visitor must give the same. T1: schedules change nothing. T2: Err, or Ok equal to the expectation; a flipped byte is judged against the full read of the delivered bytes. Sampling, not proof.",
 "trusted: proj.rs (projection duke tree -> refclass::Sem), the mask filter in c17.rs, duke::verif::masked wrappers (pure forwarding, part of the hook), SimReader; the full read's own fidelity is C01's subject",
 "DESIGN.md section 4 C17")
CLAIMED["C02"] = ("exploration",
 "deterministic simulation: the class writer's Write sink replaced by a simulated sink (short writes, EINTR, Ok(0), ENOSPC at a drawn fraction of the output, EIO at call n, flush error); the accepted bytes are judged by an independent class-file parser against the projection of the tree that was written; workload = trees read from generated, corpus, big-jump and grow-ldc classes After the main write a write that fails inside an attribute body is made on the same thread and the tree is written again: same bytes (history independence). Media errors carry a drawn error kind; the sink has fuel (a writer that keeps calling a sink which accepts nothing is a runaway).",
 "Seeded search over (input class: generated under drawn features/size/layout, corpus, big-jump stress, grow-ldc; writer schedule; 0-1 sink fault). T0: the written bytes parse under the independent parser (structural validity) and denote exactly the projection of the tree, trampolines folded on both sides; two writes are byte-identical. T1: legal short / interrupted writes give byte-identical output. T2: Err with a prefix in the sink, never Ok with an incomplete sink; a later write to a healthy sink gives the plain bytes. A clean Err at T0 is allowed by the property and only counted. Sampling, not proof.",
 "trusted: refclass parser/validator (independent, javap cross-checked), proj.rs, trampoline folding in c02.rs, SimWriter; classes duke's reader refuses cannot be written and are skipped (that is C01's subject)",
 "DESIGN.md section 4 C02")
CLAIMED["C01"] = ("exploration",
 "deterministic simulation: the class reader's Read+Seek source replaced by a simulated medium (chunk ceilings, short reads, EINTR, trailing bytes; EIO at call / offset, EOF, failing seek, flipped byte aimed through the reference encoder's offset map); duke's tree projected into an independent class-file model and compared with the model the bytes were generated from (or the independent parse of corpus bytes)",
 "Seeded search over (class: generated under drawn size/features/version, 1-3 encoder layouts - pool order and duplicates, attribute order, ldc/ldc_w, xload_n/xload/wide, goto/goto_w, switch paddings, frame encodings - or a corpus class; reader schedule; 0-2 faults). T0: projection equals the model component by component, all layouts give one answer, the reader ends exactly at the end of the class. T1: schedules change nothing, no read beyond the class. T2: Err, or Ok equal to the independent parse of the delivered bytes; no panic or runaway; re-reading the pristine bytes gives the T0 answer. Sampling, not proof.",
 "trusted: refclass (model, encoder, parser; javap cross-checked on the corpus), proj.rs, SimReader; generator admissibility rewrites listed in evidence assumptions",
 "DESIGN.md section 4 C01")
CLAIMED["C07"] = ("exploration",
 "deterministic simulation: the input jar served through a simulated Read+Seek medium (SimJar: chunking, EINTR; EIO, torn jar, flipped bytes in entry data / central directory, failing seek, on the super-class provider's open and/or remap's open); output classes observed only through the independent parser and compared with an independent reference renaming of the input's model; the remapped jar is written out again through a simulated Write+Seek sink (hook H3: short writes, EINTR, ENOSPC, EIO, Ok(0), flush error) and through put_to_file on a simulated directory (fresh file, /dev/full, missing parent directory, over a longer file; re-opened through FileJar, then torn and removed). The same entries are also offered through an entry-level jar seam (LazyJar: impl Jar without the zip crate; every entry operation - look-up, classification, class read/visit/write - is an event that can fail once or from some point on; classes are parsed from a simulated reader when asked for): an answer given after a failed entry operation must be the answer for the intact jar.",
 "Seeded search over (jar of 1-8 linked generated classes + corpus classes + resources, mapping set through the real remapper_b with the jar's super-class provider: partial mappings, package moves, inner classes, members inherited inside/outside the jar; reader schedule; 0-2 faults). T0: every class entry is stored under its remapped name, parses, shows no new structural problem and equals the reference renaming at every reference-carrying position; non-class entries byte-equal. T1: identical entries. T2: Err, or Ok equal to T0 (intact bytes) or to the reference over the delivered bytes; no panic/runaway; healthy retry equals T0. Sink: short writes succeed, any Ok leaves a jar in the sink that re-opens to exactly the to_mem entries, put_to_file onto a full device or below a missing directory fails. Sampling, not proof.",
 "trusted: refremap (reference remapper + renamer over Sem with exhaustive destructuring), refclass, SimJar, the zip crate as assembler/re-opener; lookup rules adopted from remapper.rs where the property is silent are listed in evidence assumptions",
 "DESIGN.md section 4 C07")
CLAIMED["C13"] = ("exploration",
 "deterministic simulation: client and server jars served through two simulated Read+Seek media (chunking, EINTR; EIO, torn jar, flipped bytes, failing seek on either or both sides); merged classes observed through the independent parser and judged by a reference union written from the property statement. The same entries are also offered through an entry-level jar seam (LazyJar: impl Jar without the zip crate; every entry operation - look-up, classification, class read/visit/write - is an event that can fail once or from some point on; classes are parsed from a simulated reader when asked for): an answer given after a failed entry operation must be the answer for the intact jar.",
 "Seeded search over (pairs of jars: disjoint / identical / re-encoded / differing classes whose interface, field and method lists are equal, prefixes, suffixes, interleavings, permutations or subsets of each other; resources, manifest, signature files, server library packages; reader schedules; 0-2 faults). T0: every entry exactly once minus signature files and bundled server libraries, identical classes byte-identical, one-sided classes and members marked with their side, shared members unmarked, member order of each side kept when the orders are compatible, member bodies from the side they came from. T1: identical observation. T2: Err, or Ok equal to the reference over the delivered bytes; healthy retry equals T0. Sampling, not proof.",
 "trusted: refmerge, refclass, SimJar, zip crate; choices adopted from merge.rs where the statement is silent (client wins on conflicts, fixed manifest) are evidence assumptions",
 "DESIGN.md section 4 C13")
CLAIMED["C14"] = ("exploration",
 "deterministic simulation: the jar served through a simulated Read+Seek medium and the nests table delivered as (possibly torn / flipped) text; nested jar observed through the independent parser; jar side, mappings side (apply / undo) and table translation judged by a reference nesting model. The same entries are also offered through an entry-level jar seam (LazyJar: impl Jar without the zip crate; every entry operation - look-up, classification, class read/visit/write - is an event that can fail once or from some point on; classes are parsed from a simulated reader when asked for): an answer given after a failed entry operation must be the answer for the intact jar.",
 "Seeded search over (nests table: three kinds, chains of depth 1-4, missing enclosing classes, absent classes, entries violating the rule of their kind, custom/derived inner names, C__D names; matching jar of linked generated classes; two-namespace mapping set; reader schedule; 0-2 jar faults; table text faults). T0: exactly the applicable nests renamed transitively, every reference rewritten, InnerClasses / EnclosingMethod recorded, missing enclosing classes created, entry names follow class names; apply_nests_to_mappings agrees, undo(apply(m)) = m, jar and mappings agree on class names when all entries apply, remap_nests keeps every nest in the target namespace. T1: identical. T2: Err or the reference result on the delivered bytes; table reader rule. Sampling, not proof.",
 "trusted: refnest, refclass, refmap, SimJar; plans whose created enclosing class is itself listed are executed but not judged (the property does not decide); see evidence assumptions",
 "DESIGN.md section 4 C14")
CLAIMED["C15"] = ("exploration",
 "deterministic simulation: main and library jars served through simulated Read+Seek media (chunking, EINTR; EOF, flipped jar bytes, EIO, failing seek, class-file bit flips aimed at attributes the partial visitor skips); detected bridge pairs and the produced mapping set judged by a reference bridge predicate and naming model. The same entries are also offered through an entry-level jar seam (LazyJar: impl Jar without the zip crate; every entry operation - look-up, classification, class read/visit/write - is an event that can fail once or from some point on; classes are parsed from a simulated reader when asked for): an answer given after a failed entry operation must be the answer for the intact jar.",
 "Seeded search over (type universe, 1-4 bridge families of 1-4 levels across main / library / nowhere, 27 bridge-site templates incl. 20 near misses, calamus and named mapping sets naming or not naming bridge / delegate / super declarations; reader schedules; 0-2 faults). T0: get_specialized_methods equals the reference predicate; add_specialized_methods_to_mappings gives the delegate the inherited target name of the bridge and leaves every other entry unchanged. T1: identical. T2: Err or the reference over the delivered archives; healthy retry equals T0. Damaged jars whose headers form a cyclic hierarchy run in a child process and are only counted (outside the quantifier). Sampling, not proof.",
 "trusted: refbridge, refclass, refmap, SimJar; where the statement is silent (undefined classes, lookup order) the code's answer is adopted and counted (evidence assumptions)",
 "DESIGN.md section 4 C15")
CLAIMED["C20"] = ("exploration",
 "deterministic simulation: raw_class_file's Read source and Write sink replaced by simulated media (chunking, EINTR, trailing bytes; EOF, flipped bit, EIO aimed at pool / attribute bodies / length and count fields; ENOSPC at aimed borders, EIO, Ok(0), flush error); byte identity, an independent JVMS skeleton of the bytes, the independent parser and hand-written golden encodings as oracles",
 "Seeded search over (class: generated under drawn size/features/layout, corpus, re-encoded corpus, minimal; raw values: the value read, hand-built values, 0-3 edits through public fields, 19 golden values with sentinels; reader/writer schedules; 0-1 fault each side). T0: read consumes exactly the class and equals the skeleton, to_bytes(read(b)) == b, length() == bytes written, read(to_bytes(v)) == v, outputs parse to the same model. T1: identical value / bytes. T2 reader: Err, or Ok re-encoding to the delivered bytes (a tolerant Ok on bytes that are no longer well-formed is counted); T2 writer: Err with a prefix, Ok complete, second write equal. Sampling, not proof.",
 "trusted: c20_skel (independent skeleton walker), c20_golden (hand-written bytes), refclass, SimReader/SimWriter; an in-process allocation guard answers oversized length words with an I/O error (the crate pre-allocates u32 lengths)",
 "DESIGN.md section 4 C20")
# fourth session: what was added to the simulated environment per property (appended to the technique text)
EXTRA4 = {
 "C19": " Fourth session: Two resolutions of the same roots interleaved on one thread by the harness executor.",
 "C20": " Fourth session: Raw edits that fill a count field exactly.",
 "C17": " Fourth session: A caller-written re-entrant visitor chain reads another class of the stream from inside its callbacks.",
 "C14": " Fourth session: LazyJar class entries under names not ending in .class; non-BMP class names; poison class write first. LazyJar per-open renumbering.",
 "C01": " Fourth session: the class starts at a non-zero offset of the stream (head bytes, by preference a copy of the class itself); attrition (70-260 failing reads on one thread, then the undamaged bytes). Label-heavy warm-up read on the thread.",
 "C02": " Fourth session: the simulated sink has a real gather write (write_vectored may stop inside any slice). Grow-over-limit workload; method-reference twins of both pool kinds.",
 "C03": " Fourth session: the written text is also stored on the simulated disk as a regular file / symbolic link / pipe (metadata size 0) in a directory whose name and path are drawn, and read through the path-taking read_file. The file is replaced (same length, mtime kept) and read again under the same path. One line one tab too deep: refusal or nothing lost; a medium that delivers no byte is never Ok.",
 "C04": " Fourth session: one line of a diff text one tab too deep - a refusal, or an Ok that still says what every other line says. A refused Names::change_name leaves no trace. A file cut to zero bytes is never Ok; class-less diffs with a set-level comment action.",
 "C05": " Fourth session: the mappings directory is named / reached in a drawn way (hidden, space, non-ASCII, named like a file, dir/., through .., through a symbolic link), the root file can be a pipe, lookup-key collisions on either half of a split name, unknown names composed of existing halves. File names that are not UTF-8; overwrites that keep the modification time. A diff file cut to zero bytes on the path is never answered.",
 "C07": " Fourth session: a caller-written BRemapper laid over the mapping-based one (the remapper is a trait the caller may implement). A class write that fails inside an attribute body precedes the run on the thread. Library provider asked after the main jar's with a bundled class copy; wiped central-directory fields; LazyJar odd names and per-open renumbering.",
 "C12": " Fourth session: the directories handed to enigma_dir::write / read are named and reached in a drawn way (see C05). A package directory deeper than PATH_MAX (cannot be listed by path); files that are pipes; a directory where a file is to be created. Directories below a path that is not valid UTF-8.",
 "C13": " Fourth session: a failed write of the merged jar (put_to_file onto /dev/full, or hook H3 into a sink with little room) precedes the write to memory. The jars as files behind FileJar under paths that held the other jar (same size, mtime kept); poison class write first. LazyJar renumbers its entries at every open(); resources named like the manifest up to case.",
 "C15": " Fourth session: the jars as files of the simulated directory behind dukebox FileJar, optionally under paths that held other jars during an earlier call. Same-size same-mtime generations of the jar files; a library bundling another copy of a main-jar class.",
 "C16": " Fourth session: seed input max-labels (a method with a label at every bytecode offset 0..=65535). Undamaged class inputs are also read by a re-entrant visitor (reads the class again from inside its callbacks).",
}
PENDING = {}  # id -> reason (claimed in DESIGN.md but the check is not built yet)

def main():
    props = [json.loads(l)["id"] for l in open(os.path.join(HERE, "properties.jsonl"))]
    checks, na = [], []
    for pid in props:
        if pid in CLAIMED:
            cat, tech, text, note, ref = CLAIMED[pid]
            checks.append({
                "property_id": pid,
                "quick_cmd": f"./check {pid} --tier quick",
                "thorough_cmd": f"./check {pid} --tier thorough",
                "evidence_file": f"evidence/{pid}.json",
                "replay_cmd_template": f"./check {pid} --replay {{path}}",
                "engine": "sim",
                "level_claimed": {"category": cat, "text": text, "design_ref": ref},
                "level_note": note,
                "technique": tech + EXTRA4.get(pid, ""),
            })
        elif pid in NA:
            na.append({"property_id": pid, "reason": NA[pid]})
        else:
            na.append({"property_id": pid, "reason": PENDING.get(pid, "claimed in DESIGN.md; the simulation engine for it is not built yet, so no check is registered (not a statement about applicability)")})
    hooks_commits = [l.strip() for l in open(os.path.join(HERE, "tools/hook_commits.txt"))] if os.path.exists(os.path.join(HERE, "tools/hook_commits.txt")) else []
    m = {
        "version": 1,
        "setup_cmd": "cd sim && CARGO_NET_OFFLINE=true cargo build --offline",
        "hooks": {
            "guard": "cargo feature `verif` (duke, quill, dukebox); off by default",
            "enable": "the harness crate /verif/sim depends on /repo's crates by path with features = [\"verif\"]; nothing in /repo enables it",
            "baseline_off_cmd": "cd /repo && cargo test --workspace --no-fail-fast --offline",
            "source_commits": hooks_commits,
            "add_only": True,
        },
        "engines": [{"name": "sim", "path": "sim", "serves_properties": sorted(CLAIMED), "kind_free_text": "single-process deterministic simulator: seeded PRNG decides workload, I/O schedule and faults; simulated byte media, directory, jar and network seams; reference models as oracles; shrinking and replay files"}],
        "checks": checks,
        "not_applicable": na,
        "notes": "Exit codes: 0 held, 1 violation (VIOLATION line + replay file), 2 harness/build error. VERIF_SEED selects the batch; default seed is fixed. Known findings: known_findings.json.",
    }
    json.dump(m, open(os.path.join(HERE, "MANIFEST.json"), "w"), indent=1)
    print("claimed:", sorted(CLAIMED), "unclaimed:", [x["property_id"] for x in na])

if __name__ == "__main__":
    main()
