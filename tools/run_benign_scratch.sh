#!/bin/sh
# Runs registered quick checks against property-preserving changes WITHOUT touching /repo (scratch worktree + harness copy
# under /dev/shm). Every check must stay silent (exit 0): prints SILENT / ALARM per (change, property).
# usage: run_benign_scratch.sh [-s VERIF_SEED] [-p "C01 C02 ..."] <dir with patch.diff> [...]
HERE="$(cd "$(dirname "$0")/.." && pwd)"
PROPS="C01 C02 C03 C04 C05 C07 C12 C13 C14 C15 C16 C17 C19 C20"
while [ "$1" = "-p" ] || [ "$1" = "-s" ]; do
  if [ "$1" = "-p" ]; then PROPS="$2"; else export VERIF_SEED="$2"; fi
  shift 2
done
BASE=/dev/shm; [ -d "$BASE" ] || BASE="${TMPDIR:-/tmp}"
W="$BASE/vbenign-$$"
mkdir -p "$W/verif" || exit 2
trap 'git -C /repo worktree remove --force "$W/repo" 2>/dev/null; rm -rf "$W"; git -C /repo worktree prune' EXIT INT TERM
git -C /repo worktree add -q --detach "$W/repo" HEAD || exit 2
( cd "$HERE" && tar cf - --exclude=sim/target --exclude=refclass/target --exclude=.git --exclude=replays --exclude=seeded --exclude=benign --exclude=evidence . ) | ( cd "$W/verif" && tar xf - )
sed -i "s#\"/repo/#\"$W/repo/#g" "$W/verif/sim/Cargo.toml" "$W/verif/sim/src/main.rs" "$W/verif/sim/src/engine.rs" "$W/verif/sim/src/c01.rs" "$W/verif/sim/src/c16.rs"
for d in "$@"; do
  d=$(cd "$d" && pwd)
  id=$(basename "$d")
  if ! git -C "$W/repo" apply "$d/patch.diff" 2>/dev/null; then echo "$id PATCH-DOES-NOT-APPLY"; continue; fi
  for prop in $PROPS; do
    out=$(cd "$W/verif" && ./check "$prop" --tier quick --no-evidence 2>&1); code=$?
    ids=$(echo "$out" | grep -a -E '^  T' | sed 's/^  //' | cut -c1-200 | head -4 | tr '\n' '|')
    if [ $code -eq 0 ]; then echo "$id $prop SILENT"; elif [ $code -eq 1 ]; then echo "$id $prop ALARM exit=1 :: $ids"; else echo "$id $prop HARNESS-ERROR exit=$code :: $(echo "$out" | tail -3 | tr '\n' '|')"; fi
  done
  git -C "$W/repo" checkout -q -- . ; git -C "$W/repo" clean -qfd
done
exit 0
