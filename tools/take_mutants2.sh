#!/bin/sh
# Like take_mutants.sh, but the quick check runs in a scratch worktree + harness copy (run_seeded_scratch.sh), so /repo
# stays free. Confirms the seeded changes a sub-agent left in /tmp/mw/<ID>/out/<n>/, copies the confirmed ones to
# seeded/<ID>-<n>/ and records the outcome. usage: take_mutants2.sh [-s VERIF_SEED] <ID> n [n ...]
HERE="$(cd "$(dirname "$0")/.." && pwd)"; cd "$HERE" || exit 2
SEEDARG=""; if [ "$1" = "-s" ]; then SEEDARG="-s $2"; shift 2; fi
ID="$1"; shift; NS="$*"
SRC="${MW_PREFIX:-/tmp/mw/}$ID"
TAKEN=""
for n in $NS; do
  S=/tmp/mw/stage/$ID-$n; mkdir -p $S; cp $SRC/out/$n/patch.diff $SRC/out/$n/demo.diff $SRC/out/$n/meta.json $S/ || continue
  if ! git -C /repo apply --check $S/patch.diff 2>/dev/null; then echo "$ID-$n PATCH-DOES-NOT-APPLY-TO-/repo-HEAD"; continue; fi
  r=$(sh tools/confirm_mutant.sh $SRC $S 2>&1 | tail -1); echo "$r"
  case "$r" in *"demo_without_patch=0 demo_with_patch=0"*|*"suite_with_patch=1"*|*"suite_with_patch=101"*|*"demo_without_patch=1"*|*"does not apply"*) echo "$ID-$n NOT-CONFIRMED"; continue;; esac
  mkdir -p seeded/$ID-$n; cp $S/patch.diff $S/demo.diff $S/meta.json seeded/$ID-$n/
  TAKEN="$TAKEN $ID-$n"
done
[ -n "$TAKEN" ] && sh tools/run_seeded_scratch.sh $SEEDARG $TAKEN 2>&1 | python3 tools/record_seeded.py | cut -c1-400
