#!/bin/sh
# Determinism proof: every engine, several seeds, each batch run in separate processes at 1, 5 and 16 workers
# (fresh RandomState keys per process and thread); the batch digests (event logs + observations) must be equal.
# usage: selftest_determinism.sh [runs-per-batch] [engine ...]
HERE="$(cd "$(dirname "$0")/.." && pwd)"
SIM="$HERE/sim/target/debug/sim"
RUNS="${1:-2000}"; [ $# -gt 0 ] && shift
ENGINES="$*"
[ -z "$ENGINES" ] && ENGINES="$(python3 -c "import json;print(' '.join(c['property_id'] for c in json.load(open('$HERE/MANIFEST.json'))['checks']))")"
fail=0
for e in $ENGINES; do
  for seed in 1 20260929 987654321; do
    ref=""
    for w in 1 5 16 16; do
      d=$(VERIF_SEED=$seed "$SIM" digest "$e" --runs "$RUNS" --workers "$w" 2>/dev/null | sed -n 's/^DIGEST //p')
      [ -z "$d" ] && { echo "harness error: no digest from $e seed=$seed workers=$w"; exit 2; }
      if [ -z "$ref" ]; then ref="$d"; elif [ "$ref" != "$d" ]; then echo "NONDETERMINISTIC engine=$e seed=$seed workers=$w digest=$d expected=$ref"; fail=1; fi
    done
    echo "deterministic engine=$e seed=$seed runs=$RUNS digest=$ref (workers 1,5,16,16)"
  done
done
[ $fail -eq 0 ] || exit 2
exit 0
