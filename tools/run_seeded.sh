#!/bin/sh
# Runs the registered quick check of the property each seeded change breaks, with the change applied to /repo,
# and undoes the change straight afterwards. Prints one line per change: DETECTED / MISSED.
# usage: run_seeded.sh [seeded-id ...]      (default: all of /verif/seeded/*)
HERE="$(cd "$(dirname "$0")/.." && pwd)"
cd "$HERE" || exit 2
[ -n "$(git -C /repo status --porcelain --untracked-files=no)" ] && { echo "harness error: /repo has uncommitted changes"; exit 2; }
IDS="$*"; [ -z "$IDS" ] && IDS="$(ls seeded)"
for id in $IDS; do
  d="seeded/$id"
  prop=$(python3 -c "import json;print(json.load(open('$d/meta.json'))['property'])")
  if ! git -C /repo apply "$HERE/$d/patch.diff"; then echo "$id $prop PATCH-DOES-NOT-APPLY"; continue; fi
  out=$(./check "$prop" --tier quick --no-evidence 2>&1); code=$?
  git -C /repo apply -R "$HERE/$d/patch.diff"
  [ -n "$(git -C /repo status --porcelain --untracked-files=no)" ] && { echo "harness error: could not undo $id"; exit 2; }
  ids=$(echo "$out" | grep -a -E '^  T' | sed 's/^  //' | cut -d: -f1-6 | cut -c1-140 | head -3 | tr '\n' '|')
  if [ $code -eq 1 ]; then echo "$id $prop DETECTED exit=1 :: $ids"; elif [ $code -eq 0 ]; then echo "$id $prop MISSED exit=0"; else echo "$id $prop HARNESS-ERROR exit=$code :: $(echo "$out" | tail -3 | tr '\n' '|')"; fi
done
# leave the harness built against the unchanged tree again
( cd sim && cargo build --offline --quiet 2>/dev/null )
exit 0
