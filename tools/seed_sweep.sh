#!/bin/sh
# Seed sweep on the unchanged tree: every registered engine at the given tier under several VERIF_SEED values.
# Anything but exit 0 is printed with its first violation lines; meant for `vp run` (results are triage input, not evidence).
# usage: [PROPS="C01 C05"] seed_sweep.sh <tier> <seed> [seed ...]
HERE="$(cd "$(dirname "$0")/.." && pwd)"; cd "$HERE" || exit 2
TIER="$1"; shift
# under `vp run --with-repo` the harness is pointed at the snapshot of /repo's HEAD, so that edits to /repo
# (seeded changes being tried) do not disturb the sweep
if [ -n "$VP_RUN_REPO" ] && [ -d "$VP_RUN_REPO/duke" ]; then
  sed -i "s#\"/repo/#\"$VP_RUN_REPO/#g" sim/Cargo.toml sim/src/main.rs sim/src/engine.rs sim/src/c01.rs sim/src/c16.rs
  echo "sweep against $VP_RUN_REPO"
fi
for s in "$@"; do
  for p in ${PROPS:-C01 C02 C03 C04 C05 C07 C12 C13 C14 C15 C16 C17 C19 C20}; do
    t0=$(date +%s)
    out=$(VERIF_SEED=$s ./check $p --tier "$TIER" --no-evidence 2>&1); c=$?
    t1=$(date +%s)
    echo "seed=$s $p exit=$c $((t1-t0))s $(echo "$out" | grep -c '^KNOWN-FINDING') known"
    if [ $c -ne 0 ]; then echo "$out" | grep -E '^(VIOLATION|  T|harness)' | head -20; fi
  done
done
