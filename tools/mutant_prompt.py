#!/usr/bin/env python3
# Prints the brief for a fresh sub-agent that is to write seeded changes for one property.
# The agent gets: the property text, the numbers to produce, one-line summaries of the changes earlier agents
# already wrote for that property (so that it writes different ones) - and nothing about /verif's machinery.
# usage: mutant_prompt.py <Cxx> <n> [<n> ...]
import json, sys, glob, os
here = os.path.dirname(os.path.dirname(os.path.abspath(__file__)))
pid = sys.argv[1]; ns = sys.argv[2:]
prop = None
for l in open(os.path.join(here, 'properties.jsonl')):
    p = json.loads(l)
    if p['id'] == pid: prop = p
prior = []
for d in sorted(glob.glob(os.path.join(here, 'seeded', pid + '-*'))):
    m = json.load(open(os.path.join(d, 'meta.json')))
    prior.append('- ' + m.get('summary', '')[:330].replace('\n', ' '))
files = '\n'.join('  ' + f for f in prop['anchors']['files'])
mech = '\n'.join('  - %s (%s)' % (m['name'], m['where']) for m in prop['anchors'].get('mechanism', []))
wt = os.environ.get('MW_PREFIX', '/tmp/mw/') + pid
print(f"""You are helping to evaluate a verification effort for the Rust workspace zeichenreihe/feather-build-rs (Java class-file reading/writing `duke`, `raw_class_file`, jar handling `dukebox`, `dukenest`, Minecraft mapping tooling `quill`, `maven_dependency_resolver`, and a binary crate in `src/`). You work ONLY inside your own scratch git worktree `{wt}` (it is a worktree of the repository at its current HEAD; it builds offline: always pass `--offline` to cargo and set CARGO_NET_OFFLINE=true; there is no network). Never touch /repo or /verif, and do not read anything under /verif.

The property (a semantic guarantee users of the code rely on):

  id: {pid}
  title: {prop['title']}
  statement: {prop['statement']}
  holds for: {prop['quantifier']['text']}
  code it is anchored in:
{files}
  mechanisms:
{mech}

Your job: write {len(ns)} DIFFERENT, INDEPENDENT changes to the repository's source code (numbered {', '.join(ns)}), each of which
  1. still compiles and still passes the existing test suite unchanged (`CARGO_NET_OFFLINE=true cargo test --workspace --no-fail-fast --offline` in the worktree, exit 0),
  2. BREAKS the property above - really breaks it for some input / environment behaviour / sequence of operations, not merely changes style or an error message,
  3. looks like something a real maintainer could plausibly commit (a refactoring, an optimisation, a cache, a "simplification", a changed error handling, a buffer reuse, a new fast path, a dependency-style API change), NOT an obviously planted `if input == magic` bomb and nothing guarded by an environment variable, cfg flag or feature,
  4. needs SOMETHING SPECIFIC to manifest, so that ordinary use would not expose it at once. Aim each change at a different one of these kinds:
     (a) a fault of the environment at a particular point (an I/O error, short read/write, EINTR, `Ok(0)`, full disk, truncated or damaged file, vanished file, failing flush, failing seek) - e.g. an error that is swallowed, retried wrongly, or leaves state behind;
     (b) a multi-step sequence of operations (the second call on the same thread / same object / same path / same stream behaves differently from the first; state kept in a static, thread-local, pooled buffer, cache or memo table; concurrent use from two threads);
     (c) a legal-but-unusual behaviour of a caller-supplied trait implementation or of the file system / network (custom Read/Write/Seek/Jar/Downloader/visitor implementations; directory listing order; symbolic links; non-UTF-8 or odd file names; nested directories; latency and completion order of futures; cancellation);
     (d) an unusual but legal input (boundary values such as 255/256, 32767/32768, 65535, empty lists, maximal nesting, unicode, duplicated names, rarely used format features);
     (e) two cooperating sites that each look fine alone.
     Prefer (a), (b), (c) and (e) over (d). A change that breaks nearly every input is useless.
  5. is different from what earlier helpers already wrote for this property. Already taken (do NOT repeat these or close variants of them; pick other code sites or other mechanisms):
{chr(10).join(prior) if prior else '  (none)'}

For EACH change n write into `{wt}/out/<n>/` (create the directory; `out/` is not part of the repository):
  - `patch.diff`: the change itself, as `git diff` output relative to the clean HEAD of the worktree (source files of the repository only; no tests);
  - `demo.diff`: a demonstration as `git diff` output relative to the clean HEAD that ONLY ADDS new files (a new test file such as `duke/tests/seeded_demo_<n>.rs`, or a new `#[cfg(test)]` module file plus nothing else - if it must be wired into an existing file, keep that to one added `mod` line) - a test or small program that PASSES on the clean HEAD and FAILS with patch.diff applied. It must fail because the property is broken (compare with the expected semantic result), deterministically, offline, in well under a minute. Make `git add -N` for new files before `git diff` so that they show up in the diff;
  - `meta.json`: {{"property": "{pid}", "summary": "<which file/function was changed and how, 2-4 sentences>", "needs": "<what specific input / fault / sequence / environment it needs in order to manifest, and what is unaffected>", "kind": "<a|b|c|d|e>", "demo_cmd": "<one shell command, run from the worktree root, that runs only your demonstration, e.g. CARGO_NET_OFFLINE=true cargo test -p duke --offline --test seeded_demo_<n>>", "ran": ["<each command you ran to confirm and its outcome>"]}}.

Procedure for each change, and you must really run it: start from a clean tree (`git checkout -- . && git clean -fd -e out`); apply demo only -> demo_cmd exits 0; apply demo + patch -> demo_cmd exits non-zero; clean again, apply patch only -> the full existing suite exits 0. Both diffs must apply to the clean HEAD with `git apply` independently of each other (demo.diff must not contain the patch and vice versa). Leave the worktree clean at the end (only `out/` remains). Do not commit anything, and do NOT use `git stash` (the stash is shared with other helpers' worktrees): keep diffs as files under `out/` and undo with `git apply -R` or `git checkout -- .`.

Cargo feature `verif` exists on some crates (off by default); ignore it: do not use it, do not change code guarded by it. Report at the end, per change: one paragraph saying what it does and what it needs to manifest.""")
