#!/bin/sh
# Confirms and runs the seeded changes a mutant agent left in /tmp/mw/<ID>/out/<n>/: usage take_mutants.sh <ID> [n ...]
HERE="$(cd "$(dirname "$0")/.." && pwd)"; cd "$HERE" || exit 2
ID="$1"; shift; NS="$*"; [ -z "$NS" ] && NS="1 2 3"
for n in $NS; do
  S=/tmp/mw/stage/$ID-$n; mkdir -p $S; cp /tmp/mw/$ID/out/$n/patch.diff /tmp/mw/$ID/out/$n/demo.diff /tmp/mw/$ID/out/$n/meta.json $S/ || continue
  if ! git -C /repo apply --check $S/patch.diff 2>/dev/null; then echo "$ID-$n PATCH-DOES-NOT-APPLY-TO-/repo-HEAD"; continue; fi
  r=$(sh tools/confirm_mutant.sh /tmp/mw/$ID $S 2>&1 | tail -1); echo "$r"
  case "$r" in *"demo_without_patch=0 demo_with_patch=0"*|*"suite_with_patch=1"*|*"demo_without_patch=1"*) echo "$ID-$n NOT-CONFIRMED"; continue;; esac
  mkdir -p seeded/$ID-$n; cp $S/patch.diff $S/demo.diff $S/meta.json seeded/$ID-$n/
  sh tools/run_seeded.sh $ID-$n 2>&1 | python3 tools/record_seeded.py | cut -c1-400
done
