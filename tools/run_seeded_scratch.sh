#!/bin/sh
# Regression over the seeded changes WITHOUT touching /repo: a scratch worktree of /repo's HEAD and a scratch copy of
# the harness (pointed at that worktree) under /dev/shm, one seeded change applied at a time there.
# Prints one line per change: DETECTED / MISSED, like run_seeded.sh. Removes everything it created.
# usage: run_seeded_scratch.sh [-t tier] [-s VERIF_SEED] [-P property whose check is run instead of the change's own] [seeded-id ...]     (default: all of /verif/seeded/*)
HERE="$(cd "$(dirname "$0")/.." && pwd)"
TIER=quick
SEED=""
PROPOVR=""
while [ "$1" = "-t" ] || [ "$1" = "-s" ] || [ "$1" = "-P" ]; do
  if [ "$1" = "-t" ]; then TIER="$2"; elif [ "$1" = "-P" ]; then PROPOVR="$2"; else SEED="$2"; fi
  shift 2
done
[ -n "$SEED" ] && export VERIF_SEED="$SEED"
IDS="$*"; [ -z "$IDS" ] && IDS="$(ls "$HERE/seeded")"
BASE=/dev/shm; [ -d "$BASE" ] || BASE="${TMPDIR:-/tmp}"
W="$BASE/vseed-$$"
mkdir -p "$W/verif" || exit 2
trap 'git -C /repo worktree remove --force "$W/repo" 2>/dev/null; rm -rf "$W"; git -C /repo worktree prune' EXIT INT TERM
git -C /repo worktree add -q --detach "$W/repo" HEAD || exit 2
( cd "$HERE" && tar cf - --exclude=sim/target --exclude=refclass/target --exclude=.git --exclude=replays --exclude=seeded --exclude=evidence . ) | ( cd "$W/verif" && tar xf - )
sed -i "s#\"/repo/#\"$W/repo/#g" "$W/verif/sim/Cargo.toml" "$W/verif/sim/src/main.rs" "$W/verif/sim/src/engine.rs" "$W/verif/sim/src/c01.rs" "$W/verif/sim/src/c16.rs"
for id in $IDS; do
  d="$HERE/seeded/$id"
  prop=$(python3 -c "import json;print(json.load(open('$d/meta.json'))['property'])")
  [ -n "$PROPOVR" ] && prop="$PROPOVR"
  if ! git -C "$W/repo" apply "$d/patch.diff" 2>/dev/null; then echo "$id $prop PATCH-DOES-NOT-APPLY"; continue; fi
  out=$(cd "$W/verif" && ./check "$prop" --tier "$TIER" --no-evidence 2>&1); code=$?
  git -C "$W/repo" checkout -q -- . ; git -C "$W/repo" clean -qfd
  ids=$(echo "$out" | grep -a -E '^  T' | sed 's/^  //' | cut -d: -f1-6 | cut -c1-140 | head -3 | tr '\n' '|')
  if [ $code -eq 1 ]; then echo "$id $prop DETECTED exit=1 :: $ids"; elif [ $code -eq 0 ]; then echo "$id $prop MISSED exit=0"; else echo "$id $prop HARNESS-ERROR exit=$code :: $(echo "$out" | tail -3 | tr '\n' '|')"; fi
done
exit 0
