#!/usr/bin/env python3
"""Prints the markdown tables of fixed and known findings (from known_findings.json) for DESIGN.md section 12."""
import json, os
HERE = os.path.dirname(os.path.dirname(os.path.abspath(__file__)))
k = json.load(open(os.path.join(HERE, "known_findings.json")))
print("| property | fix commit | tier / class / path | defect |")
print("|----------|------------|---------------------|--------|")
for e in k:
    if e["status"] != "fixed": continue
    what = e["what"].split(" ", 3)[3] if e["what"].startswith("fixed:") else e["what"]
    print(f"| {e['property']} | {e['commit']} | {e.get('tier','')} / {e['class']} / `{e['path']}` | {what.replace('|','/')} |")
print()
print("| property | tier / class / path | why it is listed and not repaired |")
print("|----------|---------------------|-----------------------------------|")
for e in k:
    if e["status"] != "known": continue
    print(f"| {e['property']} | {e.get('tier','')} / {e['class']} / `{e['path']}` | {e['what'].replace('|','/')} |")
