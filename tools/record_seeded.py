#!/usr/bin/env python3
"""usage: run_seeded.sh ids... | record_seeded.py   -- stores the outcome lines in seeded/<id>/meta.json"""
import sys, json, os
HERE = os.path.dirname(os.path.dirname(os.path.abspath(__file__)))
for line in sys.stdin:
    parts = line.split()
    if len(parts) < 3 or not os.path.isdir(os.path.join(HERE, "seeded", parts[0])): 
        sys.stdout.write(line); continue
    sid, prop, outcome = parts[0], parts[1], parts[2]
    p = os.path.join(HERE, "seeded", sid, "meta.json")
    m = json.load(open(p))
    m["breaks_property"] = prop
    m.setdefault("confirmed_by_main_session", {"how": "tools/confirm_mutant.sh in a scratch worktree of /repo: demo.diff alone -> demonstration passes; demo.diff + patch.diff -> demonstration fails; patch.diff alone -> `cargo test --workspace --offline --no-fail-fast` passes", "result": "confirmed"})
    ids = line.split("::", 1)[1].strip() if "::" in line else ""
    m["check_result"] = {"cmd": f"tools/run_seeded.sh {sid}  (git -C /repo apply; ./check {prop} --tier quick; git -C /repo apply -R)", "outcome": outcome, "first_identities": ids}
    json.dump(m, open(p, "w"), indent=1)
    sys.stdout.write(line)
