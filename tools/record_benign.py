#!/usr/bin/env python3
"""usage: cat logs of run_benign_scratch.sh | record_benign.py  -- stores the outcomes in benign/<id>/meta.json and
rewrites benign/RESULTS.md (one line per property-preserving change)."""
import sys, json, os, glob
HERE = os.path.dirname(os.path.dirname(os.path.abspath(__file__)))
res = {}
for line in sys.stdin:
    parts = line.split()
    if len(parts) >= 3 and os.path.isdir(os.path.join(HERE, "benign", parts[0])):
        res.setdefault(parts[0], {})[parts[1]] = " ".join(parts[2:])[:300]
for bid, r in res.items():
    p = os.path.join(HERE, "benign", bid, "meta.json")
    m = json.load(open(p))
    cr = m.get("check_results", {})
    cr.update(r)
    m["check_results"] = cr
    m["checks_run"] = " ".join(sorted(cr))
    m["result"] = "SILENT" if all(v.startswith("SILENT") for v in cr.values()) else "ALARM"
    json.dump(m, open(p, "w"), indent=1)
out = ["# Property-preserving changes and what the quick checks said\n",
       "Each change keeps the property (argument in its meta.json) and moves incidental behaviour only. Every quick check named",
       "has to stay SILENT (`tools/run_benign_scratch.sh`, scratch worktree + harness copy, /repo untouched). An ALARM is triaged",
       "in the `triage` field of the change's meta.json.\n",
       "| id | written for | what moves | checks run | result |", "|----|----|----|----|----|"]
for d in sorted(glob.glob(os.path.join(HERE, "benign", "*", "meta.json"))):
    m = json.load(open(d)); bid = os.path.basename(os.path.dirname(d))
    what = (m.get("incidental") or m.get("summary") or "").replace("|", "/").replace("\n", " ")
    if len(what) > 230: what = what[:227] + "..."
    out.append(f"| {bid} | {m.get('property')} | {what} | {m.get('checks_run','')} | {m.get('result','?')}{' - ' + m['triage'][:300] if m.get('triage') else ''} |")
open(os.path.join(HERE, "benign", "RESULTS.md"), "w").write("\n".join(out) + "\n")
print("recorded", len(res), "changes")
